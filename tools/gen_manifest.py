#!/venv/bin/python
"""Regenerates MANIFEST.json from the table below (kept in one place so that the
manifest is valid at every commit)."""
import json
import os

HERE = os.path.dirname(os.path.dirname(os.path.abspath(__file__)))
PY = '/venv/bin/python -B /verif/run.py'

# property -> (category, technique, level text, level note, design ref)
CHECKS = {
    'C01': ('model_checking',
            'bounded exhaustive enumeration of (target spine, path, spelling) cases executed on the real glom against a plain-Python walk',
            'Every spine of 6 container kinds up to length 3 (thorough: 4) x every leaf x every path deviating from the valid path in at most one '
            'position (9-symbol segment menu) plus three tails x up to 10 spellings x plain/logging targets is executed on the real implementation; '
            'identity of the result, part index, carried exception class, catchability, path attribute and the access log are compared with a reference walk.',
            'Holds for the enumerated alphabet and bounds only; reference walk encodes the reading in DESIGN.md 3/C01; traceback formatting is stubbed (messages are C05).',
            '3/C01'),
    'C02': ('model_checking',
            'bounded exhaustive enumeration of T operation sequences x targets executed on the real glom against plain Python operators',
            'Every sequence of length <= 3 (thorough: 4) over ~80 operation instances (attribute, item, slice, nested T / Spec / container arguments, '
            'calls, ten binary operators x five operands, two unary operators) x six targets, extended while the prefix succeeds, is evaluated by glom and by '
            'the same chain of Python operators; value (type+repr, identity for existing objects), failing position and carried exception class are compared.',
            'Operands and intermediate values are small; a failing call step only has to surface the callee exception class; T inside slice objects not covered.',
            '3/C02'),
    'C18': ('model_checking',
            'bounded exhaustive enumeration of T/S/A expressions and Paths (round trip through eval(repr) and pickle) and of all index/slice triples against tuple semantics',
            'Every expression of <= 3 steps (thorough: 4) over 25 step instances rooted at T, S and A, every Path of <= 4 (5) mixed P/T steps: eval(repr(x)) and '
            'pickle must give the same repr, the same step structure and the same evaluation on a recording target and ordinary targets. Every Path of length 0..4 (5) '
            'over 5 step kinds x every index in [-7,7] x every in-range slice triple x every prefix split is compared with the tuple of steps; the composition law is '
            'checked for every split point of every C01 path.',
            'Literal alphabet as listed in the check; arithmetic steps, dunder names, non-finite floats outside; wildcard steps on S/A roots are not evaluated (structure only).',
            '3/C18'),
    'C14': ('model_checking',
            'exhaustive enumeration of all reachable rooted object graphs (trees, DAGs, cycles) of bounded size x wildcard paths, executed on the real glom against a breadth-first reference walk',
            'All 6882 reachable child-list structures over 3 containers + 2 leaves (<=2 ordered children each, chosen among all nodes) under 6 kind assignments '
            '(thorough: all 64, plus 4-container graphs) x 39 wildcard paths in text / Path / T spelling; nested-list shape and entry identity compared with a reference '
            'that expands every container once; per-case time limit decides termination. Assign/Delete through wildcards on tree targets against a plain loop.',
            'Children as read in DESIGN.md 3/C14; sets and raising containers only in a fixed side menu; tuple-only cycles cannot be built.',
            '3/C14'),
    'C03': ('model_checking',
            'bounded exhaustive enumeration of type-directed spec terms executed on the real glom against an independent reference interpreter plus model-free composition laws',
            'Every spec term of depth <= 3 from a type-directed grammar over path, T, dict (computed keys, OrderedDict), list, tuple, Pipe, instrumented callables '
            '(SKIP/STOP-producing, raising), Val, Spec, Coalesce x 13 option sets, Call, Invoke chains, Ref (incl. recursion) on four targets: value, container types, key order, '
            'error class and the call log (which callable, which argument identity, order, count) are compared with a glom-free reference interpreter; the chain / dict / list laws '
            'are checked on the implementation alone.',
            'Children of deeper composites are pruned to the first K per (constructor, outcome class) - the pruned space is enumerated completely; STOP as a direct dict value is not generated.',
            '3/C03'),
    'C10': ('model_checking',
            'bounded exhaustive enumeration of combinator trees x targets (both constructor and operator spellings, auto and Match mode) and of all Check keyword combinations, against a boolean reference evaluator',
            'Every And/Or/Not/Switch tree of depth <= 2 (thorough: 3) over 36 (+9 under Match) atoms, with and without defaults, built with constructors and with & | ~, '
            'dict- and list-form Switch with 1-3 cases, on 9 targets covering every truth assignment: pass/reject, returned value, rejection class (MatchError), propagated Python '
            'errors and the predicate call log (short-circuit) compared with the reference; all 1638 Check keyword combinations x sub-spec x target.',
            'Deeper levels keep the first K terms per (constructor, outcome vector); Check with literal defaults only.',
            '3/C10'),
    'C09': ('model_checking',
            'bounded exhaustive enumeration of Match patterns x (witnesses, all one-edit mutations of the witnesses, unrelated targets) against a literal implementation of the documented matching rules',
            'Every pattern of depth <= 2 (thorough: 3) over literals, types, Regex, predicates, M, And/Or/Not, list/set/frozenset/tuple and dict patterns with literal, type, '
            'Optional(+default), Required and compound keys x targets derived from the pattern: acceptance in both directions (soundness and completeness), returned value, '
            'MatchError / TypeMatchError class, agreement of matches(), verify(), Match(default=) and an identity snapshot of the target.',
            'First-accepting-key / no back-tracking reading of dict patterns; TypeMatchError required only where the reference attributes the failure to a type rule; plain callables as dict KEYS are outside the alphabet.',
            '3/C09'),
    'C08': ('model_checking',
            'bounded exhaustive enumeration of mode-wrapper / chain / branch trees with a mode-reading probe at every leaf, compared with a lexical walk; exhaustive literal container shapes in Fill and 12 argument positions',
            'Every tree of depth <= 3 over {Auto, Fill, Match, Group} x {Pipe, tuple, dict, list, Coalesce, Switch, And, Or} x {passing, failing probe} under four outer modes: '
            'one evaluation logs the mode in force at every probe position and is compared with the lexical expectation (pass/fail outcome too); a fixed menu of ordinary '
            'mode-sensitive specs after/beside wrappers; every literal shape of depth <= 2 (thorough: 3) over dict/list/tuple/set/frozenset with six leaf kinds plus seven cyclic '
            'shapes in Fill and in 12 argument positions (type, shape, leaves, sharing/cycles by graph isomorphism, no aliasing with the spec).',
            'Plain containers are generated only where the lexical mode defines their structure; the probe relies on the glomit protocol and the public MODE key.',
            '3/C08'),
    'C07': ('model_checking',
            'bounded exhaustive enumeration of binder/reader placements over spec tree shapes, each evaluated twice on the real glom, against a frame-chain reference interpreter',
            'Every tree shape of depth <= 2 (and depth-3 extensions) over tuple, Pipe, dict, list, Coalesce, And, Or, Switch x a binder of each of 7 kinds at every slot p x a '
            'reader of each compatible kind at every other slot q x optional failing leaf / shadowing binder / second reader at a third slot x caller scope; what every reader '
            'saw (bound value, outer value, unbound) and the call outcome are compared with a reference that implements the frame rule; each spec object is evaluated twice '
            '(nothing may survive the call) and the caller mapping is compared before/after; a fixed menu covers Match-dict keys, Regex groups, globals, Vars, Ref.',
            'The reference encodes the reading of the visibility rule in DESIGN.md 3/C07; an unresolved Ref surfaces as KeyError.',
            '3/C07'),
    'C11': ('fault_enumeration',
            'bounded exhaustive enumeration of (target spine, destination, spelling, value, missing factory incl. factories failing on their n-th call, unassignable nodes) executed on the real assign/Assign against plain Python nested assignment on a copy',
            'Every spine of depth <= 2 (thorough: 3) over dict, list, tuple, object, read-only-property object and raising-__setattr__ object x leaf x destination = every '
            'existing prefix + 14 continuations (overwrite, new key, in/out-of-range and non-integer index, 1-2 absent intermediates) x 6 spellings incl. S-rooted and a T chain whose last step uses the other access kind x 5 value kinds '
            '(incl. self-referential) x 8 missing settings (incl. factory raising on call 1 / 2) x function/spec form: success <=> plain assignment succeeds; canonical cycle-safe '
            'snapshot equals the reference copy; same object returned; spine nodes keep identity; read-back; factory call count; every failure leaves the snapshot unchanged.',
            'One-step assignment semantics as listed in the check; destinations with 1-4 wildcards are decided by the wildcard-assign sub-check (shared with C14), where atomicity is not claimed.',
            '3/C11'),
    'C12': ('fault_enumeration',
            'bounded exhaustive enumeration of (target spine, path, spelling, ignore_missing, undeletable nodes) executed on the real delete/Delete against plain Python del on a copy',
            'Every spine of depth <= 2 (thorough: 3) over the six node kinds x leaf x path = every existing prefix + 13 continuations (present/absent key, index, attribute, absent parent) '
            'x 6 spellings incl. S-rooted and a T chain whose last step uses the other access kind x ignore_missing x function/spec form: same object returned and snapshot equals the copy after plain del; missing final element -> '
            'PathDeleteError, missing parent -> PathAccessError, silently ignored with ignore_missing; faults (tuple, raising __delattr__, read-only property) -> exception; '
            'target snapshot unchanged in every non-success case.',
            'One-step deletion semantics as listed in the check; paths with 1-4 wildcards are decided by the wildcard-delete sub-check (shared with C14).',
            '3/C12'),
    'C15': ('model_checking',
            'bounded exhaustive enumeration of (reduction spec, input sequence) with every spec object evaluated three times, against functools.reduce / sum / chain.from_iterable / dict.update',
            'Every element sequence of length <= 3 over eight element menus as list / tuple / generator / dict keys (and non-iterables) x Fold for 8 inits x 3 ops, Sum, Flatten '
            '(eager, lazy), Merge, flatten(levels 0..3), merge(), sub-spec T or a key: value and type equal the plain reduction (same exception class when it raises, FoldError for '
            'non-iterables), inputs keep their canonical snapshot, init() is called once per evaluation, and the result object of each of the three evaluations of one spec object is fresh.',
            'Where builtin sum() is undefined but += is (list += tuple) the += result is the reference.',
            '3/C15'),
    'C16': ('model_checking',
            'bounded exhaustive enumeration of (Group spec tree, item sequence) with every spec object evaluated three times, against a declarative bucketing loop; a second operational model classifies the one recorded finding',
            'Every item sequence of length <= 4 over {0,1,2,3} (341; plus list- and dict-valued items) x Group trees with 0-3 key levels over 5 key functions and 11 leaves '
            '([T], [T*2], SKIP-/STOP-producing value specs, First, Max, Min, Avg, Sum, Count, plain callable; Flatten, Merge), top-level and nested Limit(n): the result, key order included, '
            'equals a hand-written loop; each spec object is evaluated on A, A again and B (no carry-over); a menu nests one Group object inside another Group leaf. The known finding '
            '(key-level STOP) is re-observed, classified by signature and reported as KNOWN-FINDING.',
            'One key spec per dict level; None vs empty container is not distinguished when no item reaches the top-level leaf.',
            '3/C16'),
    'C17': ('model_checking',
            'bounded exhaustive enumeration of Iter stage sequences x sources (finite, infinite with pull counting) against the itertools/boltons composition; explicit-state search over builder histories',
            'Every stage sequence of length <= 3 (thorough: 4) over 17 stage instances of the ten kinds x {empty, 0..5, infinite} counting sources x 5 base sub-specs (T, SKIP-, STOP-producing, '
            'two sentinels): the first five outputs equal the reference composition and the items pulled after k outputs never exceed what the reference pulls after k+1 (hard cap on the '
            'infinite source); first(key, default) and all() on the same pipelines; breadth-first search over all builder histories of depth <= 3 in which every event extends ANY spec built '
            'so far (Iter and Invoke): in every state repr and behaviour of every earlier spec are unchanged and the new spec equals the chain built from scratch.',
            'Reference stages are the functions the documentation names; .map() does not honour SKIP/STOP.',
            '3/C17'),
    'C13': ('model_checking',
            'explicit-state search over registration histories on three registries (default Glommer, bare Glommer, module-level registry in a forked child), observing every (operation, class) pair after every event, against a registry model',
            'For seven hierarchy families (chain, diamond, mixin, iterable/virtual, __slots__, dict and sequence subclasses with and without __dict__): all ordered selections of <= 2 '
            '(thorough: 3) register() events (class x operation subset x exact) on one registry, with foreign events on another registry in between, and single events / ordered pairs on '
            'the module-level registry (pristine forked child per history). After every event all five operations are observed through glom()/Assign/Delete on instances of every class '
            'of the family on every registry: observed behaviour must be admissible for the nearest-registered-type model; warm-memo and cold-memo runs agree; events do not leak between '
            'registries; Glommer().glom equals glom on a pool incl. Assign/Delete.',
            'Among incomparable candidates (diamonds, duck types) any minimal one is admissible; module-level histories are limited to depth 2.',
            '3/C13'),
    'C04': ('fault_enumeration',
            'exhaustive single-fault (and absorbed-first / escaping-second double-fault) enumeration: every fault site of every skeleton x exception catalogue x kwargs matrix executed on the real glom()',
            '33 skeletons (one per place user code is entered: callables, T calls, Call/Invoke, Coalesce predicate/factory, Check, Match, Fold/Merge, Group, Iter, Assign factory, target '
            'dunders, registered handlers, nested to depth 3); a counting run learns the fault sites; one execution per (site x 43 exception shapes incl. keyword-only / arity-changing / '
            'message-prefixing constructors, user GlomError subclasses, glom\'s own classes, BaseExceptions x 8 settings of default / skip_exc / glom_debug). Checked: class and args of the '
            'escaping exception vs the injected object, GlomError-ness when rebuildable, identity under glom_debug, documented conversions, default object identity and selectivity; '
            'second bound: first fault absorbed by Coalesce / Or / Match default / Switch, second escapes; table of 20 glom-detected failures.',
            'Classification of converting vs pass-through sites as listed in the check; attributes beyond args are not asserted.',
            '3/C04'),
    'C05': ('fault_enumeration',
            'bounded exhaustive enumeration of spec terms with a failure planted at every leaf position (incl. recovered-branch-then-later-failure) x target kinds; the message is parsed and compared structurally with the failure spine of a reference interpreter',
            'Every spec term of depth <= 2 (thorough: 3, pruned by representative per constructor/outcome) over dict, list, tuple, Pipe, Spec, Auto, And, Coalesce, Or, Switch and leaves '
            'that succeed or fail in nine ways, plus terms that recover from an abandoned branch, x short / long (truncated) / non-ASCII targets. Decided: the trace starts with the root '
            'target; the Spec lines follow the spine from the root spec to the innermost failing spec; a Target line shows what each spec received whenever the object changes; every attempted '
            'branch of Coalesce / Or / Switch appears in order, each closed by the error that ended it; no stale line after a recovered branch; the last line is type and message of the original '
            'error (never "<exception str() failed>").',
            'Completed earlier chain steps and unchanged-target Target lines are optional; value renderings are matched up to the documented truncation; real traceback formatting is used (no stub).',
            '3/C05'),
    'C19': ('model_checking',
            'bounded exhaustive enumeration of (target, literal spec, source, format, flags) combinations driven through cli.main with the library as oracle; exhaustive grammar of executable spec texts under an audit hook and canary',
            '18 JSON-representable targets x literal specs generated from each target (paths, dict/list/tuple nestings, a failing variant per position) x 5 target sources '
            '(argv, file, -, --target-file -, implicit stdin) x 2 spec sources x 4 target formats x 2 spec formats x indent/--scalar/bare-string settings: stdout and exit status equal '
            'json.dumps(glom(target, spec), indent, sort_keys=True) / status 1 naming the GlomError; 13 malformed / unreadable inputs give a usage error and empty stdout; 25 payload '
            'expressions x 28 embeddings x {argv, spec file} in the default spec format: canary untouched and no exec of non-file code (sys.addaudithook). Thorough repeats every '
            '(target, spec) pair through a real `python -m glom` sub-process.',
            'In-process driving replaces sys.stdin/stdout/stderr; a malformed spec may surface the literal parser\'s exception.',
            '3/C19'),
    'C06': ('model_checking',
            'explicit-state search over histories of glom calls / cache fills / PATH_STAR toggles / registrations, each replayed on the real library in a pristine forked child and compared with cold outcomes from fresh interpreters; plus exhaustive frame-condition snapshots over a pool',
            'All event histories of depth <= 2 (thorough: 3, plus changer-prefixed depth-4 ones and one history with 10001 path strings at the real cache bound) over 28 colliding pool '
            'calls (same path text / same spec object against different targets, wildcards over literal * keys, user types, failing calls whose trace is the outcome), PATH_STAR toggle, '
            '3 registrations and cache fills with the path-cache bound lowered to 4: every call event and all 28 pool entries at the end of each history equal the outcome of the same call '
            'made first in a fresh interpreter in the same configuration (448 cold interpreter runs); distinct library-level states reached are counted. Frame condition: 613 non-mutating '
            '(target, spec, scope) triples from eight other generators, identity-preserving deep snapshots of target, spec object graph and caller scope before/after two evaluations.',
            'Configuration = (PATH_STAR, set of registrations); histories deeper than the bound and the free-running GC are out of reach.',
            '3/C06'),
    'C20': ('model_checking',
            'systematic schedule exploration of real threads under a cooperative scheduler (all interleavings at user-callable granularity; preemption-bounded at source-line granularity via sys.settrace), every execution on the real library in a pristine forked process',
            'Nine colliding pool calls (same path text with a cold path cache, one shared spec object with argument-mode containers / Coalesce default / Fill / Group, the same user type '
            'with a cold registry memo, scope bindings with mode switches, failing calls whose trace is the outcome). Callables: ALL interleavings of every pair (thorough: selected triples) '
            'with yield points inside instrumented callables. Lines: a scheduling point at every line event of glom/*.py, preemption bound 1 - thread A preempted at (every 2nd; thorough: every) '
            'point, B runs to completion, A resumes, both orders. Hot-lines: preemption bound 2 over the lines of the functions touching process-wide state. Calls: preemption bound 2 at function-entry '
            'granularity over all of glom/*.py (quick: the pairs sharing a spec object; thorough: 12 pairs). Re-entrancy: every chain of <= 3 pool calls nested through a callable, inner failures caught or propagating. Oracle: each call equals its isolated '
            'outcome (value, or error class + scrubbed trace); isolated runs are replayed twice to prove determinism.',
            'Switches inside one source line and C-level races are not explored; free-running threads are a non-deciding smoke pass.',
            '3/C20'),
}

NOT_YET = {}

# sub-checks added after the seeded waves (DESIGN.md section 9); appended to the level text
ADDENDA = {
    'C01': ' A dotted segment inside Path(...) is part of the menu. Sub-check object-keys: 14 kinds of non-string mapping key (namedtuples, tuple / frozenset subclasses, '
           'numbers, None, bytes, dotted and starred strings) x 2 levels x missing-key position x 4 spellings. Method names (count) as segments. Sub-check falsy-lookup-errors (containers whose KeyError / AttributeError subclasses are falsy). Joined Paths holding T steps; str-subclass path texts. A prefix Path joined more than once.',
    'C02': ' Sub-checks literal-arguments (24 kinds of literal x 6 wrappers x 14 argument positions on a recording target: everything but plain containers must arrive as the '
           'very same object), per-item (every expression of <= 2 steps over three targets inside ONE call against the three separate calls) and arguments-from-target '
           '(14 kinds of value fetched by a nested T x 8 positions: evaluated once, passed by identity). Operands include the twins 2 / 2.0 / True. Slices with 0 bounds. A dict subclass with its own __getitem__ / __missing__ as target; specs in key position of dict arguments. Sub-check stateful-operands (one nested-T object with a side effect at several argument positions); class and callable-with-None-attribute targets; twin tuples in one argument. Keyword names func / args / kwargs / target / scope in call steps; getters failing on another attribute name. Keyword order as written; falsy callables; plain list / dict / set arguments arrive as copies.',
    'C03': ' Sub-checks object-reuse (22 specs with container arguments x 10 composite templates, one shared object against separate equal objects) and invoke-builders '
           '(all derivation histories of depth <= 3 over 8 builder calls applied to any earlier node, with and without evaluation in between). Sub-check list-spec-laziness: one-shot counting sources x STOP / SKIP values x failure position x 3 positions of the list spec (nothing behind a STOP is pulled). Coalesce(skip_exc=()). Sub-specs raising StopIteration; Counter / defaultdict / user-subclass dict specs. Sub-check list-spec-falsy-targets (14 values x 5 positions). Sub-check call-and-invoke-parts.',
    'C04': ' The catalogue includes falsy, final (not subclassable), read-only-args and sealed exception classes; sub-check glom-detected crosses 21 failures that glom '
           'detects itself with 19 positions in which the failing spec is evaluated. User subclasses of seven glom error classes; callables inside Fill / argument containers of every rebuilt type. Arithmetic T skeletons around OverflowError / FloatingPointError / user ArithmeticError subclasses. Match predicates that raise or answer without a truth value. Faults below back-references of a recursive Ref; comparisons that raise under M.',
    'C05': ' Sub-check long-values: 15 container kinds (150 items, subclasses with their own repr, unsorted insertion order, 8-9 nesting levels) x 4 positions x 6 failing specs; '
           'the alphabet includes bare T links, callables that call glom() themselves (and render the inner error before re-raising it) and failures recovered by a '
           'default as the last child of a spec that raises itself. Cyclic targets; a falsy GlomError ending an abandoned branch. Exceptions inheriting a __str__, KeyError subclasses, multi-paragraph messages. Empty strings / True / None among printed values; truncated values whose len() raises.',
    'C06': ' The pool includes Vars() specs without keyword defaults, a default list that cannot be completed and opaque leaves under ** followed by iteration. Classes created while a call runs. T expressions differing only in the type of an equal argument; operators on mutable containers inside the target. Spec objects carrying glomit per instance; a Fill template written by a later step.',
    'C07': ' Sub-checks entry-points (all call histories of depth <= 3 (4) over Spec.glom(scope=) / glom(t, spec, scope=) x 4 call scopes x 4 Spec scopes on ONE Spec object, '
           'and Iter().first(key)), simultaneous-binding (every S / Let binder with 2-3 keywords whose values read sibling names) and binder-reuse (one binder whose value '
           'is a container literal reading the scope, evaluated under two bindings in one call). Sub-checks shadowing-values (inner bindings to None / 0 / empty containers x 4 binders x 5 readers), spec-scope-reasserted, lazy-binders (7 producers x 5 consumers x 4 shapes). Caller scopes that are layered ChainMaps. Required(binder) keys; Spec(binder) / Auto(binder) wrappers. Coalesce defaults after failed / skipped binding branches; binders spelled Path(A, name). Glommer calls: S.globals does not outlive a call, scope= through Glommer.glom; inner bindings equal to the outer value.',
    'C08': ' Lazy Iter().map(X) below a wrapper that is a non-last chain link (consumed by a later step or after glom() returned) and all linear '
           '(wrapper, container) spines of 3 (4) levels are part of the term space; targets have two distinct items per level. Switch with constant key specs under auto / fill / match. Argument positions below Fill / Match (Coalesce default, Call args / kwargs, S bindings, T call arguments); probes after a partly failed star step. The default of First as an argument position. Invoke keyword specs under Match / Group.',
    'C09': ' Every accepted case is repeated on the same Match object after the caller modified the first result in place (mutable Optional defaults included); predicates '
           'raising arbitrary exceptions, callables without __name__, bytes targets and bytes patterns, NaN. And over patterns with Optional defaults. Predicates without a truth value; bytearray / memoryview targets. Refinement types (value-dependent instance checks).',
    'C10': ' Sub-check reuse-histories: one combinator object evaluated over all ten targets in both orders (every ordered pair of targets); double negation with ~. Sub-check operator-derivations (an existing combinator is used, a new one is derived from it with & | ~, it is used again); M(T..) op M(T..). Targets False and None. Container defaults of And / Or; types as converting callables outside Match; every collection kind for Check(one_of=). Predicates raising AssertionError / user exceptions; one target object changed in place between evaluations; sub-check reflected-operators (x & m for left operands without an & of their own).',
    'C11': ' Values include T and [T, lit] (target-dependent); indexes below -len. Wildcard destinations: four kinds of value (literal, spec reading the target, list / dict '
           'literal), one value object shared by all matches, targets in which one container is reached twice. Sub-checks empty-segments (path texts over the segments "" and k) and dynamic-keys (T / Spec expressions as last, middle or only key). Sub-checks dynamic-keys-below-wildcards (key specs reading data the assignment changes: evaluated once) and dynamic-keys-in-created-segments (T / Spec keys at or below the first absent segment under missing=, 11 paths x 2 factories x 2 forms). One Assign with a container value over several targets in one call; sub-check unresolvable-dynamic-keys; Specs as plain Path parts. Wildcard destinations through ** and over equal-but-distinct containers.',
    'C12': ' A present element that cannot be deleted must raise even under ignore_missing where Python distinguishes the two (T spellings). Wildcard destinations: ignore_missing '
           'with a miss in the middle of the broadcast, parent keys named x / X, targets in which one container is reached twice. Sub-checks empty-segments and dynamic-keys as in C11. Sub-check dynamic-keys-below-wildcards as in C11; tuple keys holding a spec. Namedtuple / frozenset-subclass literal keys; Specs as plain Path parts. Wildcard destinations through ** and over equal-but-distinct containers. Sub-check containers-with-their-own-deletion (5 containers x 3 spellings x direct | nested x ignore_missing).',
    'C13': ' Eight families (incl. a registered diamond bottom with an unregistered subclass, all 6 registration orders); register-X, register-Y, register-X-again histories also '
           'in the quick tier; operations switched off with False and re-registered; an object created by missing= during a Glommer call is observed as well. Ten families incl. a builtin container before a registered mixin in the MRO and a registered str subclass; the model demands the MRO-nearest real ancestor. Bare register(X) / register(X, exact=..) before and after registrations with handlers; ONE spec object per operation for a whole history (all registries, before and after every registration). Every iterate lookup repeated through a fold, every get lookup repeated as second path segment (differential).',
    'C14': ' The T spellings are also run rooted at a scope variable (S[v]...); side menu with falsy objects that have children. Iterables failing midway, user subclasses of list / tuple / set. Sub-check spec-valued-step-after-wildcard (T / Spec / Val / callable keys directly after * and **, T / S / Path spellings, with and without a further step). Sub-check steps-after-wildcards-histories (unary / arithmetic / twin-index steps after wildcards, sequences of 1-3 in one process). Wildcard mutation through ** and over equal-but-distinct containers. Steps succeeding on leaves after **; sub-check objects-and-callees-after-wildcards.',
    'C15': ' Sub-spec kinds T, path, [T], [x] with x yielding SKIP / STOP at a marked element; the same target object is extended by the caller and evaluated again. groupby inputs (members depending on the outer iterator). The spec= argument of flatten() / merge() (absent, T, a path to where the input sits) at every number of levels. Falsy spec= arguments. Sub-checks registration-histories (folds between registrations, <= 4 events) and folds-around-groups. Throw-away init callables of alternating result types.',
    'C16': ' Aggregators with a non-zero start value, equal values of different types and NaN as items, every result is modified by the caller before the next evaluation; '
           'an inner Group as non-last Pipe step of an outer Group. Bucket keys that are classes, None as first item, inner Groups ending by STOP. Sub-check aggregator-roles (one aggregator object as plain fold / Group leaf, all sequences of <= 3 uses). type keys over equal items of different types.',
    'C17': ' Stages include windowed(0) and limit(0); terminals include first(key=) selecting an item that is itself falsy. split(sep=0), split(maxsplit=1), split(). Builtin containers as sources.',
    'C18': ' The constructed object is compared with the steps as written (not only with its own round trip); Paths with a bare root followed by T chunks; strings with both quote characters. Pickle protocols 0-2, copy and deepcopy; tuple-valued plain steps; an exception from repr() is a violation. The same argument under different operations (Path segment, attribute, item) in startswith / ==; literals beyond every reprlib default limit. Sub-check opcode-literals; slices round-trip through repr / pickle / deepcopy. Joins leave their operands unchanged; slice bounds that are 0.',
    'C19': ' Targets and literal specs with non-string keys; semantically malformed targets (unhashable key, impossible date, 5000-digit integer, 100000 nesting levels); sub-checks '
           'text-forms (41 texts that are well-formed in several formats with different meanings, read with the loader of the declared format) and call-histories (all '
           'sequences of 1-2 (3) in-process CLI calls from a menu of 11). White space around target texts, keys above U+FFFF. An explicitly named target while stdin carries something else; tuple results under --scalar; target files that are not text, binary, or directories. Sub-check spec-spellings (26 spec texts x argument | file); target file names suggesting another format. The empty spec text. Multi-document YAML; one spec text under two spec formats in one process.',
    'C20': ' The pool (19 entries) includes two different recursive specs using one Ref name, one spec with scope variables written and read around a scheduling point, an '
           'uncopyable GlomError raised two call levels down (the outer message must start with the outer target) and calls through a Glommer whose registry differs from the module registry. Also one first(key) spec whose key reads the scope and callers sharing one scope= dict (22 entries). One back-filling Assign(missing=) whose factory is a scheduling point, shared by two calls with different values (25 entries). A Fill([]) accumulator in a shared spec; two exception classes with one qualified name (29 entries). A failing T-call callee as scheduling point against another T call; one fresh Merge over two lazy targets (34 entries).',
}


def main():
    props = [json.loads(l) for l in open(os.path.join(HERE, 'properties.jsonl'))]
    checks = []
    na = []
    for p in props:
        pid = p['id']
        if pid in CHECKS:
            cat, tech, text, note, ref = CHECKS[pid]
            checks.append({
                'property_id': pid,
                'quick_cmd': '%s check %s --tier quick' % (PY, pid),
                'thorough_cmd': '%s check %s --tier thorough' % (PY, pid),
                'evidence_file': '/verif/evidence/%s.json' % pid,
                'replay_cmd_template': PY + ' replay {path}',
                'engine': 'mc',
                'level_claimed': {'category': cat, 'text': text + ADDENDA.get(pid, ''), 'design_ref': 'DESIGN.md ' + ref},
                'level_note': note,
                'technique': tech,
            })
        else:
            na.append({'property_id': pid,
                       'reason': NOT_YET.get(pid, 'check designed (DESIGN.md 3/%s) but not built yet in this tree; not claimed until its explorer exists' % pid)})
    man = {
        'version': 1,
        'setup_cmd': PY + ' selftest',
        'hooks': {
            'guard': 'GLOM_VERIF',
            'enable': 'no source hooks exist: checks import glom from /repo (or $GLOMVERIF_REPO) as it is; the guard name is reserved and unused',
            'baseline_off_cmd': 'cd /repo && /venv/bin/python -m pytest -ra -q -p no:cacheprovider --timeout=900 --continue-on-collection-errors',
            'source_commits': [],
            'add_only': True,
        },
        'engines': [{
            'name': 'mc', 'path': '/verif/mc',
            'serves_properties': sorted(CHECKS),
            'kind_free_text': 'hand-written explicit enumeration engine for Python: complete case lists / fault points / event histories / '
                              'thread schedules are walked on the real implementation and compared with reference models',
        }],
        'checks': checks,
        'not_applicable': na,
        'notes': 'All checks are bounded exhaustive explorations of the real implementation (see DESIGN.md). '
                 'VERIF_SEED only rotates the walk order; KNOWN_FINDINGS.txt lists recorded findings and fixed defects.',
    }
    with open(os.path.join(HERE, 'MANIFEST.json'), 'w') as f:
        json.dump(man, f, indent=1)
        f.write('\n')


if __name__ == '__main__':
    main()
