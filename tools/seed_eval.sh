#!/bin/bash
# usage: tools/seed_eval.sh <property id> <n> [extra check ids...]
# Validates a sub-agent's seeded change (/tmp/wt-<id>/_out/change<n>.diff + demo<n>.py):
#   1. the pinned test-suite passes with the change, 2. the demo fails with it, 3. passes without it,
# then runs the property's check (and any extra ones) against a scratch copy of /repo carrying the change.
# On success the change is stored as /verif/seeded/<id>-<n>/ (patch.diff, demo.py, notes.txt, meta.json).
set -u
id=$1; n=$2; shift 2
wt=/tmp/wt-$id
diff=$wt/_out/change$n.diff
demo=$wt/_out/demo$n.py
[ -f "$diff" ] && [ -f "$demo" ] || { echo "missing $diff or $demo"; exit 3; }
git -C $wt checkout -q -- glom
( cd $wt && git apply --check "$diff" ) || { echo "PATCH does not apply"; exit 3; }
( cd $wt && git apply "$diff" )
tests=$(cd $wt && PYTHONDONTWRITEBYTECODE=1 /venv/bin/python -m pytest -q -p no:cacheprovider --timeout=900 --deselect glom/test/test_cli.py::test_main 2>&1 | tail -1)
( cd $wt && timeout 120 /venv/bin/python -B _out/demo$n.py >/dev/null 2>&1 ); with=$?
git -C $wt checkout -q -- glom
( cd $wt && timeout 120 /venv/bin/python -B _out/demo$n.py >/dev/null 2>&1 ); without=$?
echo "tests-with-change: $tests"
echo "demo exit with change: $with   without: $without"
ok=1
echo "$tests" | grep -q failed && ok=0
[ $with -ne 0 ] || ok=0
[ $without -eq 0 ] || ok=0
if [ $ok = 0 ]; then echo "SEED INVALID"; exit 4; fi
# does the patch apply to /repo's tree too?
detected=""
for c in $id "$@"; do
  out=$(TIER=${TIER:-quick} /verif/tools/mutant.sh "$diff" $c 2>&1)
  echo "$out" | grep -E 'PATCH FAILED|== ' | head -3
  echo "$out" | grep -q "== $c exit=1" && detected="$detected $c"
done
d=/verif/seeded/$id-${WAVE:-}$n
mkdir -p $d
cp "$diff" $d/patch.diff; cp "$demo" $d/demo.py; cp $wt/_out/notes$n.txt $d/notes.txt 2>/dev/null
/venv/bin/python - "$id" "$n" "$tests" "$with" "$without" "$detected" "$d" <<'EOF'
import json, os, sys
pid, n, tests, w, wo, det, d = sys.argv[1:8]
notes = open(d + '/notes.txt').read() if os.path.exists(d + '/notes.txt') else ''
meta = {
    'property': pid,
    'origin': 'independent sub-agent given only the property text and a scratch worktree',
    'needs_to_manifest': notes.strip(),
    'ran': {
        'pinned tests with the change (test_main deselected)': tests,
        'demo exit status with the change': int(w),
        'demo exit status without the change': int(wo),
        'checks run against a scratch copy carrying the change': 'tools/mutant.sh patch.diff <id> (quick tier)',
    },
    'detected_by': det.split(),
}
json.dump(meta, open(d + '/meta.json', 'w'), indent=1)
print('stored %s detected_by=%s' % (d, det.split()))
EOF
