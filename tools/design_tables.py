#!/venv/bin/python
"""Regenerates the measured tables inside DESIGN.md (between the BEGIN/END markers) from
evidence/*.json and seeded/*/meta.json, so that the document cannot drift from the machinery."""
import glob
import json
import os
import re

HERE = os.path.dirname(os.path.dirname(os.path.abspath(__file__)))


def sizes():
    rows = ['| check | tier of the committed evidence | sub-checks (cases executed) | distinct non-trivial | transitions | wall s |', '|---|---|---|---|---|---|']
    for f in sorted(glob.glob(os.path.join(HERE, 'evidence', '*.json'))):
        e = json.load(open(f))
        c = e['coverage']
        subs = ', '.join('%s %d' % (k, v['executed']) for k, v in c.get('sub_checks', {}).items())
        rows.append('| %s | %s | %s | %d | %d | %.0f |' % (e['property_id'], e['tier'], subs, c['distinct_nontrivial'], c['transitions'], e['wall_s']))
    return '\n'.join(rows)


def seeded():
    rows = ['| seeded change | property | what it needs in order to manifest (from the author\'s notes) | detected by (quick tier) |', '|---|---|---|---|']
    for d in sorted(glob.glob(os.path.join(HERE, 'seeded', '*'))):
        mp = os.path.join(d, 'meta.json')
        if not os.path.exists(mp):
            continue
        m = json.load(open(mp))
        need = re.sub(r'\s+', ' ', m.get('needs_to_manifest', '')).replace('|', '\\|')
        if len(need) > 260:
            need = need[:257] + '...'
        rows.append('| `seeded/%s` | %s | %s | %s |' % (os.path.basename(d), m['property'], need, ', '.join(m.get('detected_by', [])) or '**not detected**'))
    return '\n'.join(rows)


def main():
    p = os.path.join(HERE, 'DESIGN.md')
    s = open(p).read()
    for name, fn in (('sizes', sizes), ('seeded', seeded)):
        a, b = '<!-- BEGIN:%s -->' % name, '<!-- END:%s -->' % name
        if a in s and b in s:
            s = s[:s.index(a) + len(a)] + '\n' + fn() + '\n' + s[s.index(b):]
    open(p, 'w').write(s)


if __name__ == '__main__':
    main()
