#!/bin/bash
# usage: tools/reseed.sh [seed dir names...]   (default: all of /verif/seeded/*)
# Re-runs the property's quick check against a scratch copy of /repo carrying each stored seeded change and
# rewrites "detected_by" in its meta.json.  Extra check ids listed in meta.json["also_run"] are run too.
# Seeds are processed 4 at a time (each check already uses all cores for its own case list).
set -u
cd /verif
if [ $# -gt 0 ]; then dirs="$*"; else dirs=$(ls seeded); fi
one() {
  d=$1
  id=$(/venv/bin/python -c "import json,sys; m=json.load(open('seeded/$d/meta.json')); print(' '.join([m['property']] + m.get('also_run', [])))")
  detected=""
  status="ok"
  for c in $id; do
    out=$(tools/mutant.sh seeded/$d/patch.diff $c 2>&1)
    echo "$out" | grep -q "PATCH FAILED" && status="PATCH-FAILED"
    echo "$out" | grep -q "== $c exit=1" && detected="$detected $c"
  done
  /venv/bin/python - "$d" "$detected" <<'EOF'
import json, sys
d, det = sys.argv[1], sys.argv[2].split()
p = 'seeded/%s/meta.json' % d
m = json.load(open(p))
m['detected_by'] = det
json.dump(m, open(p, 'w'), indent=1)
EOF
  echo "$d $status detected_by=[$detected ]"
}
export -f one
printf '%s\n' $dirs | xargs -P 4 -I{} bash -c 'one {}'
