#!/bin/bash
# usage: tools/mutant.sh <patch.diff> [--tests] <check id>...
# Applies the patch to a scratch copy of /repo (outside /repo and /verif), optionally runs the
# pinned test suite there, runs the named checks against the copy, then removes the copy.
set -u
patch="$(readlink -f "$1")"; shift
run_tests=0
if [ "${1:-}" = "--tests" ]; then run_tests=1; shift; fi
tier="${TIER:-quick}"
scratch="$(mktemp -d /var/tmp/glomverif-mut-XXXXXX)"
trap 'rm -rf "$scratch"' EXIT
rsync -a --exclude .git --exclude '__pycache__' --exclude '.pytest_cache' /repo/ "$scratch/repo/"
( cd "$scratch/repo" && patch -p1 -s < "$patch" ) || { echo "PATCH FAILED"; exit 3; }
if [ $run_tests = 1 ]; then
  ( cd "$scratch/repo" && PYTHONDONTWRITEBYTECODE=1 /venv/bin/python -m pytest -q -p no:cacheprovider --timeout=900 --deselect glom/test/test_cli.py::test_main 2>&1 | tail -3 )
fi
rc=0
for id in "$@"; do
  GLOMVERIF_REPO="$scratch/repo" GLOMVERIF_EVIDENCE_DIR="$scratch/evidence" GLOMVERIF_REPLAY_DIR="$scratch/replays" \
    /venv/bin/python -B /verif/run.py check "$id" --tier "$tier" 2>&1 | grep -E 'VIOLATION|KNOWN-FINDING|HARNESS|VACUOUS|tier=' | head -8
  r=${PIPESTATUS[0]}
  echo "== $id exit=$r"
  [ $r -gt $rc ] && rc=$r
done
exit $rc
