#!/venv/bin/python
"""Command line of the verification machinery.

  run.py check C07 [--tier quick|thorough]   explore one property, write evidence/C07.json
  run.py replay <file>                       re-execute one recorded case without the explorer
  run.py selftest                            setup_cmd: engine import, manifest validation, determinism
  run.py all [--tier quick]                  every check in turn (convenience)
"""
import argparse
import importlib
import json
import os
import sys

sys.dont_write_bytecode = True
if os.environ.get('PYTHONHASHSEED') != '0':  # set-ordered texts must not vary between runs
    os.environ['PYTHONHASHSEED'] = '0'
    os.execv(sys.executable, [sys.executable, '-B'] + sys.argv)
HERE = os.path.dirname(os.path.abspath(__file__))
sys.path.insert(0, HERE)

from mc import engine  # noqa: E402


def load_check(prop):
    engine.setup_imports()
    return importlib.import_module('mc.checks.' + prop.lower())


def cmd_check(prop, tier, seed):
    mod = load_check(prop)
    if hasattr(mod, 'main'):
        return mod.main(tier, seed)
    subs = mod.subs(tier)
    return engine.run_check(mod.PROPERTY, subs, tier, seed, level=getattr(mod, 'LEVEL', 'model_checking'),
                            assumptions=getattr(mod, 'ASSUMPTIONS', ()),
                            extra=getattr(mod, 'extra_evidence', lambda t: None)(tier))


def cmd_replay(path):
    body = json.load(open(path, encoding='utf8'))
    mod = load_check(body['property'])
    tier = body.get('tier', 'quick')
    sub = None
    for s in mod.subs(tier, only=body['sub']) if 'only' in mod.subs.__code__.co_varnames else mod.subs(tier):
        if s.name == body['sub']:
            sub = s
            break
    if sub is None:
        print('no sub-check %r in %s' % (body['sub'], body['property']))
        return 2
    if sub.setup:
        sub.setup()
    outs = []
    for _ in range(2):  # a replay must be deterministic
        r = sub.run_case(body['case'])
        outs.append(engine.canon(r.viol))
    if outs[0] != outs[1]:
        print('HARNESS-ERROR: replay is not deterministic')
        return 2
    print('case: ' + engine.canon(body['case'])[:2000])
    if r.viol is None:
        print('replay: property holds on this case (outcome %s)' % r.outcome)
        return 0
    print('replay: violation reproduced: ' + json.dumps(r.viol, indent=1, default=repr)[:4000])
    print('VIOLATION property=%s replay=%s' % (body['property'], path))
    return 1


def cmd_selftest():
    engine.setup_imports()
    man = json.load(open(os.path.join(HERE, 'MANIFEST.json')))
    props = [json.loads(l)['id'] for l in open(os.path.join(HERE, 'properties.jsonl'))]
    claimed = [c['property_id'] for c in man['checks']]
    na = [c['property_id'] for c in man.get('not_applicable', [])]
    assert sorted(claimed + na) == sorted(props), 'manifest does not partition the property list'
    for c in claimed:
        importlib.import_module('mc.checks.' + c.lower())
    try:
        import jsonschema  # noqa
        schema = json.load(open('/root/.vp/MANIFEST.schema.json'))
        jsonschema.validate(man, schema)
    except ImportError:
        pass
    print('selftest ok: %d checks, %d not applicable, glom from %s' % (len(claimed), len(na), engine.REPO))
    return 0


def main():
    ap = argparse.ArgumentParser()
    sp = ap.add_subparsers(dest='cmd', required=True)
    c = sp.add_parser('check')
    c.add_argument('prop')
    c.add_argument('--tier', default=os.environ.get('VERIF_TIER', 'quick'), choices=['quick', 'thorough'])
    r = sp.add_parser('replay')
    r.add_argument('path')
    sp.add_parser('selftest')
    a = sp.add_parser('all')
    a.add_argument('--tier', default='quick')
    args = ap.parse_args()
    seed = int(os.environ.get('VERIF_SEED', '0') or 0)
    if args.cmd == 'check':
        return cmd_check(args.prop.upper(), args.tier, seed)
    if args.cmd == 'replay':
        return cmd_replay(args.path)
    if args.cmd == 'selftest':
        return cmd_selftest()
    if args.cmd == 'all':
        man = json.load(open(os.path.join(HERE, 'MANIFEST.json')))
        rc = 0
        for c in man['checks']:
            rc = max(rc, os.system('%s -B %s check %s --tier %s' % (sys.executable, os.path.abspath(__file__), c['property_id'], args.tier)) >> 8)
        return rc


if __name__ == '__main__':
    sys.exit(main())
