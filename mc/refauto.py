"""Reference interpreter for glom's auto mode over spec *terms* (JSON-able), written from the
statement of C03 / the documentation, deliberately naive, and free of glom imports: terms in,
Python values out.  Sentinels SKIP / STOP are local objects mapped to glom's at the boundary.

Spec terms
  ['path', 'a.b']                      dotted string
  ['T', [[op, arg], ...]]              T expression with '.' / '[' steps
  ['dict', [[key, sub], ...], kind]    key = ['k', literal] | ['kT', Tterm] ; kind = 'dict' | 'odict'
  ['list', sub]
  ['tuple', [subs]] / ['pipe', [subs]]
  ['fn', name]                         instrumented callable (see FUNCS)
  ['val', v]                           v JSON literal or {'$': 'SKIP'|'STOP'}
  ['spec', sub]
  ['coalesce', [subs], opts]           opts: default (arg term) | default_factory (fn name) | skip (literal / list / fn name) | skip_exc ('glom'|'boom'|'both')
  ['call', func, [arg terms], {kw: arg term}]      func = ['fn', name] | ['T', ops]
  ['invoke', func, [['C', [lits], {kw: lit}] | ['S', [subs], {kw: sub}] | ['*', sub|None, sub|None]]]
  ['ref', name, sub?]
Argument terms: {'lit': v} | {'T': ops} | {'spec': sub} | {'list': [...]} | {'tuple': [...]} | {'dict': [[k, arg]...]}
"""
from collections import OrderedDict



class Record(dict):
    """a dict subclass used as a dict spec: the result is a Record, too"""


class MyOD(OrderedDict):
    pass


import collections as _collections
DICT_KINDS = {'dict': dict, 'odict': OrderedDict, 'record': Record, 'myod': MyOD, 'counter': _collections.Counter,
              'ddict': _collections.defaultdict}


class Sentinel:
    def __init__(self, name):
        self.name = name

    def __repr__(self):
        return self.name


SKIP = Sentinel('SKIP')
STOP = Sentinel('STOP')


class Boom(Exception):
    """the exception raised by the instrumented 'raise' callable"""


class RefErr(Exception):
    """a failure glom itself must detect; .cls is the documented GlomError subtype name"""
    def __init__(self, cls, detail=''):
        Exception.__init__(self, cls, detail)
        self.cls = cls


class Ctx:
    def __init__(self, target_ids):
        self.log = []
        self.target_ids = target_ids

    def key(self, v):
        if id(v) in self.target_ids:
            return ('id', id(v))
        return ('val', type(v).__name__, repr(v))


def fn_impl(name, ctx):
    def call(*a, **kw):
        ctx.log.append((name, tuple(ctx.key(x) for x in a), tuple(sorted((k, ctx.key(v)) for k, v in kw.items()))))
        if name == 'ident':
            return a[0]
        if name == 'inc':
            return a[0] + 1
        if name == 'to_skip':
            return SKIP
        if name == 'to_stop':
            return STOP
        if name == 'raise':
            raise Boom('boom')
        if name == 'len':
            return len(a[0])
        if name == 'pack':
            return ('pack', a, tuple(sorted(kw.items())))
        if name == 'is_odd':
            return a[0] % 2 == 1
        if name == 'mk':
            return 'made'
        if name == 'skip_if_big':
            return SKIP if a[0] > 2 else a[0]
        if name == 'stop_if_big':
            return STOP if a[0] > 2 else a[0]
        raise AssertionError(name)
    return call


def lit(v):
    if isinstance(v, dict) and '$' in v:
        return {'SKIP': SKIP, 'STOP': STOP}[v['$']]
    return v


def iterate(target):
    if isinstance(target, (str, bytes)) or not hasattr(type(target), '__iter__'):
        raise RefErr('UnregisteredTarget')
    return iter(target)


def access(cur, op, arg):
    try:
        if op == 'P':
            if isinstance(cur, dict):
                return cur[arg]
            if isinstance(cur, (list, tuple)):
                return cur[int(arg)]
            return getattr(cur, arg)
        if op == '.':
            return getattr(cur, arg)
        return cur[arg]
    except (KeyError, IndexError, AttributeError, TypeError, ValueError):
        raise RefErr('PathAccessError')


def ev_T(ops, target):
    cur = target
    for op, arg in ops:
        cur = access(cur, op, arg)
    return cur


def ev_arg(term, target, env, ctx):
    if 'lit' in term:
        return lit(term['lit'])
    if 'T' in term:
        return ev_T(term['T'], target)
    if 'spec' in term:
        return ev(term['spec'], target, env, ctx)
    if 'fn' in term:
        return fn_impl(term['fn'], ctx)
    if 'list' in term:
        return [ev_arg(x, target, env, ctx) for x in term['list']]
    if 'tuple' in term:
        return tuple(ev_arg(x, target, env, ctx) for x in term['tuple'])
    if 'dict' in term:
        return {k: ev_arg(v, target, env, ctx) for k, v in term['dict']}
    raise AssertionError(term)


def ev(term, target, env, ctx):
    """env: dict name -> spec term (Ref definitions in lexical scope)"""
    k = term[0]
    if k == 'path':
        cur = target
        for seg in term[1].split('.'):
            cur = access(cur, 'P', seg)
        return cur
    if k == 'T':
        return ev_T(term[1], target)
    if k == 'dict':
        ret = DICT_KINDS[term[2]]()
        for key, sub in term[1]:
            val = ev(sub, target, env, ctx)
            if val is SKIP:
                continue
            name = key[1] if key[0] == 'k' else ev_T(key[1], target)
            ret[name] = val
        return ret
    if k == 'list':
        out = []
        for item in iterate(target):
            val = ev(term[1], item, env, ctx)
            if val is SKIP:
                continue
            if val is STOP:
                break
            out.append(val)
        return out
    if k in ('tuple', 'pipe'):
        res = target
        for sub in term[1]:
            nxt = ev(sub, res, env, ctx)
            if nxt is SKIP:
                continue
            if nxt is STOP:
                break
            res = nxt
        return res
    if k == 'fn':
        return fn_impl(term[1], ctx)(target)
    if k == 'val':
        return lit(term[1])
    if k == 'spec':
        return ev(term[1], target, env, ctx)
    if k == 'coalesce':
        opts = term[2]
        skip_exc = opts.get('skip_exc', 'glom')
        for sub in term[1]:
            try:
                ret = ev(sub, target, env, ctx)
            except RefErr:
                if skip_exc in ('glom', 'both'):
                    continue
                raise
            except Boom:
                if skip_exc in ('boom', 'both'):
                    continue
                raise
            if 'skip' in opts:
                sk = opts['skip']
                if isinstance(sk, dict) and 'fn' in sk:
                    skipped = fn_impl(sk['fn'], ctx)(ret)
                elif isinstance(sk, dict) and 'tuple' in sk:
                    skipped = ret in tuple(sk['tuple'])
                else:
                    skipped = ret == sk['lit']
                if skipped:
                    continue
            return ret
        if 'default' in opts:
            return ev_arg(opts['default'], target, env, ctx)
        if 'default_factory' in opts:
            return fn_impl(opts['default_factory'], ctx)()
        raise RefErr('CoalesceError')
    if k == 'call':
        func = fn_impl(term[1][1], ctx) if term[1][0] == 'fn' else ev_T(term[1][1], target)
        args = [ev_arg(a, target, env, ctx) for a in term[2]]
        kwargs = {n: ev_arg(a, target, env, ctx) for n, a in term[3].items()}
        return func(*args, **kwargs)
    if k == 'invoke':
        func = fn_impl(term[1][1], ctx) if term[1][0] == 'fn' else ev(term[1], target, env, ctx)
        stages = term[2]
        latest = {}
        for i, st in enumerate(stages):
            if st[0] in 'CS':
                for name in st[2]:
                    latest[name] = i
        args, kwargs = [], {}
        for i, st in enumerate(stages):
            if st[0] == 'C':
                args.extend(lit(a) for a in st[1])
                for name, v in st[2].items():
                    if latest[name] == i:
                        kwargs[name] = lit(v)
            elif st[0] == 'S':
                args.extend([ev(a, target, env, ctx) for a in st[1]])
                for name, v in st[2].items():
                    if latest[name] == i:
                        kwargs[name] = ev(v, target, env, ctx)
            else:
                if st[1] is not None:
                    args.extend(ev(st[1], target, env, ctx))
                if st[2] is not None:
                    kwargs.update(ev(st[2], target, env, ctx))
        return func(*args, **kwargs)
    if k == 'ref':
        if len(term) > 2:
            env = dict(env)
            env[term[1]] = term[2]
            return ev(term[2], target, env, ctx)
        if term[1] not in env:
            raise RefErr('KeyError')   # unresolved Ref: outside the alphabet, never generated
        return ev(env[term[1]], target, env, ctx)
    raise AssertionError(term)
