"""Shared pieces of the C11 / C12 checks: target builders over node kinds, canonical
identity-free snapshots (cycle safe), plain-Python reference access / assignment / deletion."""


class Obj:
    def __init__(self, **kw):
        self.__dict__.update(kw)

    def __repr__(self):
        return '%s(%s)' % (type(self).__name__, ', '.join('%s=%r' % kv for kv in sorted(self.__dict__.items(), key=lambda kv: kv[0])))


class RoObj(Obj):
    """attribute object with a read-only property `ro`"""
    @property
    def ro(self):
        return 'readonly'


class BadObj(Obj):
    """attribute object whose __setattr__ / __delattr__ raise"""
    def __setattr__(self, name, v):
        raise RuntimeError('setattr refused')

    def __delattr__(self, name):
        raise RuntimeError('delattr refused')


KINDS = ['dict', 'list', 'tuple', 'obj', 'roobj', 'badobj']
VALID = {'dict': 'k', 'list': '1', 'tuple': '1', 'obj': 'k', 'roobj': 'k', 'badobj': 'k'}


def mk_leaf(name):
    return {'none': None, 'zero': 0, 'edict': {}, 'elist': [], 'str': 'v'}[name] if name not in ('edict', 'elist') else ({} if name == 'edict' else [])


def build(kinds, leaf):
    """spine: node i holds the on-spine child under VALID[kind] and a sibling; returns (root, [nodes along the spine])"""
    child = mk_leaf(leaf)
    nodes = []
    for depth in range(len(kinds) - 1, -1, -1):
        kind = kinds[depth]
        sib = 'sib%d' % depth
        if kind == 'dict':
            node = {'s': sib, 'k': child}
        elif kind == 'list':
            node = [sib, child]
        elif kind == 'tuple':
            node = (sib, child)
        elif kind == 'obj':
            node = Obj(s=sib, k=child)
        elif kind == 'roobj':
            node = RoObj(s=sib, k=child)
        elif kind == 'badobj':
            node = BadObj()
            node.__dict__.update(s=sib, k=child)
        nodes.append(node)
        child = node
    nodes.reverse()
    return child, nodes


def canon(v, memo=None):
    """identity-free canonical form; shared / cyclic nodes are numbered by first visit"""
    memo = {} if memo is None else memo
    if isinstance(v, (dict, list, tuple, set, frozenset, Obj)):
        if id(v) in memo:
            return ('ref', memo[id(v)])
        memo[id(v)] = len(memo)
        n = memo[id(v)]
        if isinstance(v, dict):
            return ('dict', n, tuple((canon(k, memo), canon(x, memo)) for k, x in v.items()))
        if isinstance(v, (list, tuple)):
            return (type(v).__name__, n, tuple(canon(x, memo) for x in v))
        if isinstance(v, (set, frozenset)):
            return (type(v).__name__, n, tuple(sorted(repr(x) for x in v)))
        return (type(v).__name__, n, tuple((k, canon(x, memo)) for k, x in v.__dict__.items()))
    return ('val', type(v).__name__, repr(v))


class AccessFail(Exception):
    pass


def access(cur, op, arg):
    """the lookup a path step performs; AccessFail where glom reports PathAccessError"""
    try:
        if op == 'P':
            if isinstance(cur, dict):
                return cur[arg]
            if isinstance(cur, (list, tuple)):
                return cur[int(arg)]
            return getattr(cur, arg)
        if op == '.':
            try:
                return getattr(cur, arg)
            except AttributeError:
                raise AccessFail()
        try:
            return cur[arg]
        except (KeyError, IndexError, TypeError):
            raise AccessFail()
    except AccessFail:
        raise
    except Exception:
        if op == 'P':
            raise AccessFail()
        raise


def assign_op(dest, op, arg, val):
    """plain Python assignment for one step; any exception = the assignment cannot be completed"""
    if op == 'P':
        if isinstance(dest, dict):
            dest[arg] = val
        elif isinstance(dest, list):
            dest[int(arg)] = val
        elif isinstance(dest, (tuple, str, int, float, type(None), frozenset, set, bytes)):
            raise TypeError('unassignable')
        else:
            setattr(dest, arg, val)
    elif op == '.':
        setattr(dest, arg, val)
    else:
        dest[arg] = val


def delete_op(dest, op, arg):
    if op == 'P':
        if isinstance(dest, dict):
            del dest[arg]
        elif isinstance(dest, list):
            del dest[int(arg)]
        elif isinstance(dest, (tuple, str, int, float, type(None), frozenset, set, bytes)):
            raise TypeError('undeletable')
        else:
            delattr(dest, arg)
    elif op == '.':
        delattr(dest, arg)
    else:
        del dest[arg]


def natural_op(kind, seg):
    """the T step a user would write for a node of this kind"""
    if kind in ('list', 'tuple'):
        try:
            return ('[', int(seg))
        except ValueError:
            return ('[', seg)
    if kind in ('obj', 'roobj', 'badobj'):
        return ('.', seg)
    return ('[', seg)
