"""Colliding pool of (target, spec) pairs and library-level events for the C06 history search.

Importable both by the check and by a fresh interpreter (`python -c`) that computes the cold
baseline: the outcome of one pool call made FIRST in a pristine interpreter under a given
configuration (PATH_STAR value, set of registrations)."""
import json
import re
import sys
import warnings

import glom as G
from glom import glom, T, S, A, Vars, Pipe, Coalesce, Fill, Fold, Sum, Flatten, Iter, Match, Val, Spec, Check, M, Or, Invoke, GlomError
from glom.grouping import Group
import glom.core as core


class UA:
    def __init__(self):
        self.x = 'attr-x'

    def __repr__(self):
        return 'UA()'


class UB(UA):
    pass


class Opaque:
    """no __dict__, not iterable: a leaf for every wildcard walk and an unregistered target for iteration"""
    __slots__ = ()

    def __repr__(self):
        return 'Opaque()'


class UC(UB):
    def __iter__(self):
        return iter(['c0', 'c1'])


def h(tag):
    return lambda o, k: 'handler-%s:%s' % (tag, k)


REGISTRATIONS = {
    'regA': lambda: G.register(UA, get=h('A')),
    'regB-exact': lambda: G.register(UB, get=h('B'), exact=True),
    'regC-iter': lambda: G.register(UC, iterate=lambda o: iter(['reg-iter'])),
}

# shared spec OBJECTS (evaluated against different targets within one history)
SHARED_T = T['a']['b']
SHARED_COAL = Coalesce('zz', default=[T['a'], {'k': T['a']}])
SHARED_FILL = Fill({'k': T['a'], 'l': [T['a'], 'lit']})
SHARED_GROUP = Group({T % 2: [T]})
SHARED_SUM = Sum(T['l'], init=list)
SHARED_FOLD = Fold(T['l'], init=list)
SHARED_ITER = Iter().map(T * 2).filter(T).all()
SHARED_MATCH = Match({'a': Or(dict, int)})
SHARED_INVOKE = Invoke(sorted).specs(T['l'])
SHARED_STAR = Invoke(lambda *a, **kw: (a, sorted(kw.items()))).star(args=T['l'], kwargs=T['d']).constants(9, z=1).specs(T['l'][0])
SHARED_BIND = (S(k=T['a']), {'seen': S['k'], 'again': Coalesce(S['nope'], default='none')})

# scope variables created by a Vars() without keyword defaults / with a base mapping only: each evaluation starts afresh
SHARED_VARS = Pipe(S(v=Vars()), A.globals.t, Coalesce(S.v.seen, default='unset'), A.globals.r, S.globals.t, A.v.seen, S.globals.r)
SHARED_VARS_BASE = Pipe(S(v=Vars({'n': 0})), A.globals.t, S.v.n, A.globals.r, S.globals.t, A.v.n, S.globals.r)

def _plain_fn(t):
    return ('called as a plain function', t['a'])


def _fn_with_glomit(t):
    return ('called as a plain function', t['a'])


_fn_with_glomit.glomit = lambda target, scope: ('evaluated through its own glomit', target['a'])

import types as _types
_ns_with_glomit = _types.SimpleNamespace(glomit=lambda target, scope: ('namespace glomit', target['a']))
_ns_plain = _types.SimpleNamespace(other=1)

from glom import A as _A, S as _S, Fill as _Fill
_TEMPLATE_SPEC = (_S(rec=_Fill({'meta': {'by': {}, 'tags': []}, 'v': 1})), {'o': 'owner', 'n': Coalesce('n', default=None)},
                  _A.rec['meta']['by']['owner'], _S.rec['meta']['tags'].append(T['o']), _S.rec)

POOL = [
    ('path-a.b-1', lambda: {'a': {'b': 1}}, 'a.b'),
    ('path-a.b-2', lambda: {'a': {'b': [2]}}, 'a.b'),
    ('path-a.b-miss', lambda: {'a': {}}, 'a.b'),
    ('star-child', lambda: {'a': {'x': 1, '*': 9}}, 'a.*'),
    ('starstar', lambda: {'*': {'k': 1}, 'k': 2}, '**'),
    ('star-key-literal', lambda: {'*': 'literal-star'}, '*'),
    ('shared-T-1', lambda: {'a': {'b': 'one'}}, SHARED_T),
    ('shared-T-2', lambda: {'a': {'b': 'two'}}, SHARED_T),
    ('shared-coalesce-1', lambda: {'a': 1}, SHARED_COAL),
    ('shared-coalesce-2', lambda: {'a': [2]}, SHARED_COAL),
    ('shared-coalesce-fails-mid-build', lambda: {'b': 0}, SHARED_COAL),      # the default list cannot be completed: T['a'] fails
    # classes created on the fly (and collected again): a later class of another KIND may get the same address
    ('dynamic-class-object', lambda: type('Dyn', (object,), {'__init__': lambda self: setattr(self, 'k', 'attr-k')})(), 'k'),
    ('dynamic-class-dict', lambda: type('Dyn', (dict,), {'__slots__': ()})(k='item-k'), 'k'),
    ('dynamic-class-list', lambda: type('Dyn', (list,), {'__slots__': ()})(['e0', 'e1']), '1'),
    ('dynamic-class-iterate', lambda: type('Dyn', (list,), {'__slots__': ()})(['e0']), [T]),
    # T expressions that differ only in the TYPE of an equal argument (1 / 1.0 / True): each keeps its own meaning whatever was evaluated before
    ('t-index-int', lambda: ['e0', 'e1', 'e2'], T[1]),
    ('t-index-float', lambda: ['e0', 'e1', 'e2'], T[1.0]),
    ('t-index-true', lambda: ['e0', 'e1', 'e2'], T[True]),
    ('t-floordiv-int', lambda: 7, T // 2),
    ('t-floordiv-float', lambda: 7, T // 2.0),
    ('t-mul-list-int', lambda: [1], T * 2),
    ('t-mul-list-float', lambda: [1], T * 2.0),
    # binary operators whose left operand is a mutable container INSIDE the target: a new object, the target stays as it is
    ('t-concat-lists-in-target', lambda: {'tags': ['a', 'b'], 'extra': ['x']}, {'all': T['tags'] + T['extra'], 'n': (T['tags'], len)}),
    ('t-union-sets-in-target', lambda: {'seen': {1}, 'new': {2}}, T['seen'] | T['new']),
    ('t-repeat-list-in-target', lambda: {'row': [0]}, T['row'] * 3),
    ('t-concat-list-and-tuple', lambda: {'tags': ['a'], 'extra': ('x',)}, Coalesce(T['tags'] + T['extra'], default='lists and tuples do not add')),
    # two spec objects of ONE type (plain functions), one of which carries a glomit attribute of its own: whether an object is a spec is asked of the object
    ('function-spec-plain', lambda: {'a': 1}, _plain_fn),
    ('function-spec-with-glomit-attribute', lambda: {'a': 1}, _fn_with_glomit),
    ('namespace-spec-with-glomit', lambda: {'a': 1}, _ns_with_glomit),
    ('namespace-without-glomit-in-coalesce', lambda: {'a': 1}, Coalesce(_ns_plain, default='not a spec')),
    # a constant template under Fill, filled in by a later step of the same spec: every evaluation starts from a fresh copy of the template
    ('fill-template-written-by-later-step-1', lambda: {'owner': 'first', 'n': 1}, _TEMPLATE_SPEC),
    ('fill-template-written-by-later-step-2', lambda: {'owner': 'second'}, _TEMPLATE_SPEC),
    ('starstar-over-opaque-leaf', lambda: {'d': Opaque(), 'k': [1]}, '**'),
    ('iterate-opaque', lambda: Opaque(), [T]),
    ('iterate-opaque-with-default', lambda: {'o': Opaque()}, Coalesce(('o', [T]), default='not iterable')),
    ('shared-fill-1', lambda: {'a': 1}, SHARED_FILL),
    ('shared-fill-2', lambda: {'a': 'z'}, SHARED_FILL),
    ('shared-group-1', lambda: [1, 2, 3], SHARED_GROUP),
    ('shared-group-2', lambda: [4], SHARED_GROUP),
    ('shared-sum', lambda: {'l': [[1], [2]]}, SHARED_SUM),
    ('shared-fold', lambda: {'l': [[3]]}, SHARED_FOLD),
    ('shared-iter', lambda: [0, 1, 2], SHARED_ITER),
    ('shared-match', lambda: {'a': 1}, SHARED_MATCH),
    ('shared-match-fail', lambda: {'a': 'str'}, SHARED_MATCH),
    ('shared-invoke', lambda: {'l': [3, 1, 2]}, SHARED_INVOKE),
    ('shared-invoke-star-1', lambda: {'l': [3, 1], 'd': {'k': 1}}, SHARED_STAR),
    ('shared-invoke-star-2', lambda: {'l': [7], 'd': {}}, SHARED_STAR),
    ('shared-bind', lambda: {'a': 'bound'}, SHARED_BIND),
    ('shared-vars-1', lambda: 'first-target', SHARED_VARS),
    ('shared-vars-2', lambda: 'second-target', SHARED_VARS),
    ('shared-vars-base', lambda: 'third-target', SHARED_VARS_BASE),
    ('user-type-get-A', lambda: UA(), 'x'),
    ('user-type-get-B', lambda: UB(), 'x'),
    ('user-type-get-C', lambda: UC(), 'x'),
    ('user-type-iterate-C', lambda: UC(), [T]),
    ('user-type-iterate-A', lambda: UA(), [T]),
    ('fail-trace-path', lambda: {'a': {'b': 1}}, 'a.zz.q'),
    ('fail-trace-coalesce', lambda: {'a': 1}, ('a', Coalesce('x', 'y'))),
]


def scrub(text):
    text = re.sub(r'0x[0-9a-fA-F]+', '0xADDR', text)
    text = re.sub(r'File "[^"]*", line \d+', 'File "F", line N', text)
    return text


def call(i):
    name, mk, spec = POOL[i]
    try:
        res = glom(mk(), spec)
        return ['ok', type(res).__name__, scrub(repr(res))]
    except GlomError as e:
        return ['err', [c.__name__ for c in type(e).__mro__ if c.__module__.startswith('glom')][:1], scrub(str(e))]
    except Exception as e:
        return ['exc', type(e).__name__, scrub(str(e))]


def apply_config(config):
    star, regs = config
    if not star:
        core.PATH_STAR = False
    for r in regs:
        REGISTRATIONS[r]()


def toggle_star():
    core.PATH_STAR = not core.PATH_STAR


def fill(n, start):
    for k in range(start, start + n):
        glom({}, 'fill%d.x' % k, default=None)


def lower_cache_bound(n):
    try:
        G.Path._MAX_CACHE = n
    except Exception:
        pass


def library_state():
    """digest of every piece of module- or class-level mutable state of the library (for state counting)"""
    import hashlib
    parts = []
    for modname in ('glom.core', 'glom.matching', 'glom.mutation', 'glom.reduction', 'glom.grouping', 'glom.streaming'):
        mod = sys.modules.get(modname)
        if mod is None:
            continue
        for name, val in sorted(vars(mod).items()):
            if name.startswith('__') or callable(val) or isinstance(val, type(sys)):
                if not isinstance(val, type):
                    continue
                for cname, cval in sorted(vars(val).items()):
                    if isinstance(cval, (dict, list, set, bool, int)) and not cname.startswith('__'):
                        parts.append('%s.%s.%s=%s' % (modname, name, cname, describe(cval)))
                continue
            if isinstance(val, (dict, list, set, bool, int, str)) or type(val).__name__ == 'ChainMap':
                parts.append('%s.%s=%s' % (modname, name, describe(val)))
    return hashlib.blake2b('|'.join(parts).encode('utf8', 'replace'), digest_size=8).hexdigest()


def describe(v, depth=0):
    if depth > 4:
        return '...'
    if isinstance(v, dict) or type(v).__name__ == 'ChainMap':
        items = []
        for k, x in list(v.items()):
            kk = 'ID' if isinstance(k, int) and abs(k) > 10 ** 8 else (getattr(k, '__name__', None) or scrub(repr(k))[:60])
            items.append('%s:%s' % (kk, describe(x, depth + 1)))
        return '{' + ','.join(sorted(items)) + '}'
    if isinstance(v, (list, tuple, set)):
        return '[' + ','.join(describe(x, depth + 1) for x in list(v)[:50]) + ']'
    if hasattr(v, '__dict__') and not callable(v) and not isinstance(v, type):
        return type(v).__name__ + describe(vars(v), depth + 1)
    return scrub(repr(v))[:80]


if __name__ == '__main__':
    # cold baseline: python -B c06pool.py '<json config>' <i>
    warnings.simplefilter('ignore')
    if sys.argv[1] == '--state':
        lower_cache_bound(4)
        print(json.dumps(library_state()))
        sys.exit(0)
    config = json.loads(sys.argv[1])
    lower_cache_bound(4)
    apply_config((config[0], config[1]))
    print(json.dumps(call(int(sys.argv[2]))))
