"""Instrumented user objects placed in targets and specs.

The container subclasses declare ``__slots__ = ()`` so that they are plain
dict / list / tuple look-alikes (an instance with a ``__dict__`` is also an
"attribute object" for glom's registry, which is a different alphabet symbol).
Logs go to a module-level list that the harness resets per execution; nodes are
identified by a label assigned at build time through a side table keyed by id().
"""
from collections import OrderedDict

LOG = []
LABEL = {}      # id(obj) -> label (objects are kept alive by the target for the duration of a case)
KEEP = []       # keeps labelled objects alive so ids are not recycled within a case


def reset():
    del LOG[:]
    LABEL.clear()
    del KEEP[:]


def label(obj, name):
    LABEL[id(obj)] = name
    KEEP.append(obj)
    return obj


def lab(obj):
    return LABEL.get(id(obj), '?')


class LogDict(dict):
    __slots__ = ()

    def __getitem__(self, k):
        LOG.append((lab(self), 'getitem', repr(k)))
        return dict.__getitem__(self, k)

    def __setitem__(self, k, v):
        LOG.append((lab(self), 'setitem', repr(k)))
        return dict.__setitem__(self, k, v)

    def __delitem__(self, k):
        LOG.append((lab(self), 'delitem', repr(k)))
        return dict.__delitem__(self, k)


class LogODict(OrderedDict):
    __slots__ = ()

    def __getitem__(self, k):
        LOG.append((lab(self), 'getitem', repr(k)))
        return OrderedDict.__getitem__(self, k)


class LogList(list):
    __slots__ = ()

    def __getitem__(self, k):
        LOG.append((lab(self), 'getitem', repr(k)))
        return list.__getitem__(self, k)

    def __setitem__(self, k, v):
        LOG.append((lab(self), 'setitem', repr(k)))
        return list.__setitem__(self, k, v)

    def __delitem__(self, k):
        LOG.append((lab(self), 'delitem', repr(k)))
        return list.__delitem__(self, k)


class LogTuple(tuple):
    __slots__ = ()

    def __getitem__(self, k):
        LOG.append((lab(self), 'getitem', repr(k)))
        return tuple.__getitem__(self, k)


class Obj:
    """plain attribute object"""
    def __init__(self, **kw):
        self.__dict__.update(kw)

    def __repr__(self):
        return 'Obj(%s)' % ', '.join('%s=%r' % kv for kv in self.__dict__.items())


class LogObj(Obj):
    def __getattribute__(self, name):
        if not name.startswith('_'):
            LOG.append((lab(self), 'getattr', name))
        return object.__getattribute__(self, name)

    def __setattr__(self, name, v):
        LOG.append((lab(self), 'setattr', name))
        object.__setattr__(self, name, v)

    def __delattr__(self, name):
        LOG.append((lab(self), 'delattr', name))
        object.__delattr__(self, name)


PLAIN = {'dict': dict, 'odict': OrderedDict, 'list': list, 'tuple': tuple, 'obj': Obj}
LOGGING = {'dict': LogDict, 'odict': LogODict, 'list': LogList, 'tuple': LogTuple, 'obj': LogObj}
