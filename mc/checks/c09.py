"""C09 - Match succeeds exactly on conforming targets and returns them unchanged.

Enumerated: patterns of depth <= 2 (quick) / 3 (thorough) over {literal, type, list, set,
frozenset, tuple, dict with literal / type / Optional(+default) / Required / compound keys,
Regex, callables, And / Or / Not, M comparisons}; for each pattern: witnesses derived from
the pattern, every one-edit mutation of each witness (leaf type change, element dropped /
added, container type change, key dropped / added / renamed, dict subclass) and a fixed menu
of unrelated targets.  Oracle: a literal implementation of the documented matching rules.
"""
import itertools
import json
from collections import OrderedDict

from glom import glom, Match, M, And, Or, Not, Regex, Optional, Required, GlomError, MatchError, T
from glom.matching import TypeMatchError

from ..engine import R, Sub

PROPERTY = 'C09'
ASSUMPTIONS = [
    'dict patterns: each target key goes to the first spec key (in spec order) that accepts it; its value must then match that key\'s '
    'value pattern (no back-tracking)',
    'TypeMatchError / TypeError is required exactly where the reference attributes the failure to a type rule; elsewhere any MatchError is accepted',
    'leaf values: small ints, strs, None, floats; set patterns hold hashable leaf patterns only',
]

class _EvenMeta(type):
    def __instancecheck__(cls, obj):
        return type(obj) is int and obj % 2 == 0


class Even(metaclass=_EvenMeta):
    """a refinement type: whether something is an instance depends on the VALUE, not only on its type"""


TYPES = {'int': int, 'str': str, 'object': object, 'dict': dict, 'list': list, 'float': float, 'even': Even}


def pos(x):
    return isinstance(x, int) and x > 0


pos.__name__ = 'pos'


def boom(x):
    raise ValueError('boom')


def ratio(x):
    return 1 / x > 0.5        # ZeroDivisionError on 0, TypeError on non-numbers: any exception of a predicate is a rejection


import functools
import operator

# callables that have no __name__ (a partial object, a callable instance)
PARTIAL_GT3 = functools.partial(operator.lt, 3)          # x -> 3 < x


class IsShort:
    def __call__(self, x):
        return len(x) < 3                                 # TypeError for numbers: a rejection like any other exception


class Ambiguous:
    """an answer without a truth value (like an array comparison): asking for it raises"""
    def __bool__(self):
        raise ValueError('the truth value of this answer is ambiguous')


def vague(x):
    return Ambiguous() if isinstance(x, (int, float)) else isinstance(x, str)


PREDS = {'pos': pos, 'boom': boom, 'ratio': ratio, 'partial-gt3': PARTIAL_GT3, 'callable-object': IsShort(), 'vague': vague}

# ------------------------------------------------------------------ targets

def bt(t):
    k = t[0]
    if k == 'f' and t[1] == 'nan':
        return float('nan')
    if k == 'b':
        return t[1].encode('ascii')
    if k == 'ba':
        return bytearray(t[1].encode('ascii'))       # not a string type: no Regex accepts it
    if k == 'mv':
        return memoryview(t[1].encode('ascii'))
    if k in ('i', 's', 'f'):
        return t[1]
    if k == 'n':
        return None
    if k == 'l':
        return [bt(x) for x in t[1]]
    if k == 't':
        return tuple(bt(x) for x in t[1])
    if k == 'S':
        return set(bt(x) for x in t[1])
    if k == 'F':
        return frozenset(bt(x) for x in t[1])
    if k == 'd':
        return {bt(a): bt(b) for a, b in t[1]}
    if k == 'od':
        return OrderedDict((bt(a), bt(b)) for a, b in t[1])
    raise AssertionError(t)


def snap(v):
    if isinstance(v, dict):
        return (type(v).__name__, id(v), tuple((snap(k), snap(x)) for k, x in v.items()))
    if isinstance(v, (list, tuple)):
        return (type(v).__name__, id(v), tuple(snap(x) for x in v))
    if isinstance(v, (set, frozenset)):
        return (type(v).__name__, id(v), tuple(sorted(map(repr, v))))
    return (type(v).__name__, repr(v))


# ------------------------------------------------------------------ patterns

def bp(p):
    k = p[0]
    if k == 'lit':
        return p[1]
    if k == 'type':
        return TYPES[p[1]]
    if k == 'regex':
        return Regex(p[1])
    if k == 'regex-bytes':
        return Regex(p[1].encode('ascii'))
    if k == 'pred':
        return PREDS[p[1]]
    if k == 'M':
        return {'>': M > p[2], '==': M == p[2], '<': M < p[2], '>=': M >= p[2], '<=': M <= p[2], '!=': M != p[2]}[p[1]]
    if k == 'and':
        return And(*[bp(x) for x in p[1]])
    if k == 'or':
        return Or(*[bp(x) for x in p[1]])
    if k == 'not':
        return Not(bp(p[1]))
    if k == 'list':
        return [bp(x) for x in p[1]]
    if k == 'set':
        return set(bp(x) for x in p[1])
    if k == 'fset':
        return frozenset(bp(x) for x in p[1])
    if k == 'tuple':
        return tuple(bp(x) for x in p[1])
    if k == 'dict':
        d = {}
        for key, val in p[1]:
            if key[0] == 'opt':
                kk = Optional(key[1]) if len(key) < 3 else Optional(key[1], default=json.loads(json.dumps(key[2])))
            elif key[0] == 'req':
                kk = Required(bp(key[1]))
            else:
                kk = bp(key)
            d[kk] = bp(val)
        return d
    raise AssertionError(p)


def same(a, b):
    return a == b or repr(a) == repr(b)      # nan is not equal to itself


def scribble(v, seen=None):
    """modify every mutable container reachable from a result, in place"""
    seen = set() if seen is None else seen
    if id(v) in seen:
        return
    seen.add(id(v))
    if isinstance(v, dict):
        for x in list(v.values()):
            scribble(x, seen)
        v['__scribbled__'] = 1
    elif isinstance(v, list):
        for x in v:
            scribble(x, seen)
        v.append('__scribbled__')
    elif isinstance(v, (tuple, frozenset)):
        for x in v:
            scribble(x, seen)
    elif isinstance(v, set):
        v.add('__scribbled__')


class Fail(Exception):
    def __init__(self, kind):
        self.kind = kind    # 'type' | 'other' | 'py:<cls>'


def ref(p, t):
    """-> matched value; raises Fail"""
    k = p[0]
    if k == 'lit':
        if t != p[1]:
            raise Fail('other')
        return t
    if k == 'type':
        if not isinstance(t, TYPES[p[1]]):
            raise Fail('type')
        return t
    if k == 'regex':
        import re
        if type(t) not in (str, bytes) or (type(t) is bytes) or not re.fullmatch(p[1], t):
            raise Fail('other')
        return t
    if k == 'regex-bytes':
        import re
        if type(t) is not bytes or not re.fullmatch(p[1].encode('ascii'), t):
            raise Fail('other')
        return t
    if k == 'pred':
        try:
            ok = bool(PREDS[p[1]](t))       # an answer that cannot be reduced to a truth value is a rejection like any other exception
        except Exception:
            raise Fail('other')
        if not ok:
            raise Fail('other')
        return t
    if k == 'M':
        import operator
        try:
            ok = {'>': operator.gt, '==': operator.eq, '<': operator.lt, '>=': operator.ge, '<=': operator.le, '!=': operator.ne}[p[1]](t, p[2])
        except TypeError:
            raise Fail('py:TypeError')
        if not ok:
            raise Fail('other')
        return t
    if k == 'and':
        res = t
        for c in p[1]:
            res = ref(c, t)
        return res
    if k == 'or':
        last = None
        for c in p[1]:
            try:
                return ref(c, t)
            except Fail as f:
                if f.kind.startswith('py:'):
                    raise
                last = f
        raise last
    if k == 'not':
        try:
            ref(p[1], t)
        except Fail as f:
            if f.kind.startswith('py:'):
                raise
            return t
        raise Fail('other')
    if k in ('list', 'set', 'fset'):
        ty = {'list': list, 'set': set, 'fset': frozenset}[k]
        if not isinstance(t, ty):
            raise Fail('type')
        out = []
        for item in t:
            last = None
            for c in p[1]:
                try:
                    out.append(ref(c, item))
                    break
                except Fail as f:
                    if f.kind.startswith('py:'):
                        raise
                    last = f
            else:
                if not p[1]:
                    raise Fail('other')
                raise last
        return out if k == 'list' else ty(out)
    if k == 'tuple':
        if not isinstance(t, tuple):
            raise Fail('type')
        if len(t) != len(p[1]):
            raise Fail('other')
        return tuple(ref(c, x) for c, x in zip(p[1], t))
    if k == 'dict':
        if not isinstance(t, dict):
            raise Fail('type')
        required = []
        defaults = []
        for i, (key, val) in enumerate(p[1]):
            if key[0] == 'opt':
                if len(key) > 2:
                    defaults.append((key[1], key[2]))
            elif key[0] == 'req':
                required.append(i)
            elif key[0] == 'lit' or (key[0] in ('tuple', 'fset') and not key[1]):
                required.append(i)
        result = {}
        for tk, tv in t.items():
            for i, (key, val) in enumerate(p[1]):
                kp = ['lit', key[1]] if key[0] == 'opt' else key[1] if key[0] == 'req' else key
                try:
                    mk = ref(kp, tk)
                except Fail as f:
                    if f.kind.startswith('py:'):
                        raise
                    continue
                result[mk] = ref(val, tv)
                if i in required:
                    required.remove(i)
                break
            else:
                raise Fail('other')
        for name, dv in defaults:
            if name not in result:
                result[name] = json.loads(json.dumps(dv))
        if required:
            raise Fail('other')
        return result
    raise AssertionError(p)


# ------------------------------------------------------------------ witnesses and mutations

def wit(p, alt=0):
    """a target term intended to conform (the reference decides what it really does)"""
    k = p[0]
    if k == 'lit':
        v = p[1]
        return ['n'] if v is None else ['i', v] if isinstance(v, int) else ['s', v]
    if k == 'type':
        return {'int': ['i', 4 + alt], 'str': ['s', 'w' * (alt + 1)], 'object': [['n'], ['l', []]][alt % 2], 'dict': ['d', []],
                'list': ['l', []], 'float': ['f', 1.5], 'even': ['i', 4 + 2 * alt]}[p[1]]
    if k == 'regex':
        return ['s', 'aa' if alt else 'a']
    if k == 'regex-bytes':
        return ['b', 'aa' if alt else 'a']
    if k == 'pred':
        return ['i', 2 + alt]
    if k == 'M':
        if isinstance(p[2], str):
            return ['s', p[2]]
        return ['i', p[2] + (1 if p[1] == '>' else -1 if p[1] == '<' else 0)]
    if k == 'and':
        return wit(p[1][-1], alt)
    if k == 'or':
        return wit(p[1][alt % len(p[1])], alt)
    if k == 'not':
        return ['n'] if alt else ['f', 2.5]
    if k in ('list', 'set', 'fset'):
        tag = {'list': 'l', 'set': 'S', 'fset': 'F'}[k]
        items = [wit(c, 0) for c in p[1]]
        if alt and p[1]:
            items = items + [wit(p[1][0], 1)]
        if k != 'list':
            items = [x for x in items if x[0] in 'isnf']
        return [tag, items]
    if k == 'tuple':
        return ['t', [wit(c, alt) for c in p[1]]]
    if k == 'dict':
        pairs = []
        for key, val in p[1]:
            if key[0] == 'opt':
                if alt:
                    continue
                kt = wit(['lit', key[1]])
            elif key[0] == 'req':
                kt = wit(key[1], alt)
            else:
                kt = wit(key, alt)
            if kt[0] not in 'isnft':
                continue
            pairs.append([kt, wit(val, alt)])
        return ['d', pairs]
    raise AssertionError(p)


OTHER_LEAF = {'i': ['s', 'zz'], 's': ['i', 9], 'n': ['i', 0], 'f': ['s', 'q']}


def mutations(t):
    """every one-edit mutation of a target term"""
    k = t[0]
    out = []
    if k in ('ba', 'mv'):
        return []
    if k == 'b':
        return [['s', t[1]], ['b', t[1] + 'b'], ['b', ''], ['i', 1], ['ba', t[1]], ['mv', t[1]]]          # the same text as str: a Regex built from bytes must REJECT it
    if k in 'isnf':
        out.append(OTHER_LEAF[k])
        if k == 's':
            out.append(['b', t[1]])                                            # the same text as bytes
        if k == 'i':
            out += [['i', -t[1]], ['i', 0], ['f', float(t[1])]]
        if k == 's':
            out += [['s', t[1] + 'b'], ['s', ''], ['s', t[1] + '\n'], ['s', '\n' + t[1]]]
        return out
    if k in ('l', 't', 'S', 'F'):
        items = t[1]
        for i in range(len(items)):
            out.append([k, items[:i] + items[i + 1:]])                       # drop
            for m in mutations(items[i]):
                if k in 'SF' and m[0] not in 'isnf':
                    continue
                out.append([k, items[:i] + [m] + items[i + 1:]])             # edit in place
        out.append([k, items + [['s', 'extra']]])                            # add
        out.append([k, items + [['n']]])
        for other in ('l', 't', 'S', 'F'):                                   # container type change
            if other != k and (other in 'lt' or all(x[0] in 'isnf' for x in items)):
                out.append([other, items])
        return out
    if k in ('d', 'od'):
        pairs = t[1]
        for i in range(len(pairs)):
            out.append([k, pairs[:i] + pairs[i + 1:]])                       # key dropped
            for m in mutations(pairs[i][1]):
                out.append([k, pairs[:i] + [[pairs[i][0], m]] + pairs[i + 1:]])
            for m in mutations(pairs[i][0]):
                if m[0] in 'isnf':
                    out.append([k, pairs[:i] + [[m, pairs[i][1]]] + pairs[i + 1:]])   # key renamed
        out.append([k, pairs + [[['s', 'extra'], ['i', 1]]]])                # key added
        out.append([k, pairs + [[['i', 77], ['s', 'v']]]])
        out.append(['od' if k == 'd' else 'd', pairs])                       # dict subclass
        out.append(['l', [p[0] for p in pairs]])
        return out
    raise AssertionError(t)


UNRELATED = [['i', 1], ['s', 'a'], ['n'], ['l', []], ['d', []], ['t', []], ['l', [['i', 1]]], ['d', [[['s', 'k'], ['i', 1]]]],
             ['t', [['i', 1], ['s', 'a']]], ['S', [['i', 1]]], ['f', 2.5], ['S', []], ['F', [['s', 'a']]], ['i', -3], ['s', 'aaa'], ['f', 'nan'], ['i', 0], ['b', 'aa'], ['b', 'zz']]


def targets_for(p):
    out, seen = [], set()

    def add(t):
        key = json.dumps(t)
        if key not in seen:
            seen.add(key)
            out.append(t)
    for alt in (0, 1):
        w = wit(p, alt)
        add(w)
        for m in mutations(w):
            add(m)
    for u in UNRELATED:
        add(u)
    return out


# ------------------------------------------------------------------ execution

def run_case(case):
    p, tt = case
    try:
        pattern = bp(p)
    except Exception as e:
        return R(None, 'unbuildable:' + type(e).__name__, nontrivial=False)
    try:
        want_val = ref(p, bt(tt))
        want = ('ok',)
    except Fail as f:
        want = ('fail', f.kind)
    target = bt(tt)
    before = snap(target)
    where = {'pattern': repr(pattern), 'target': repr(target)}
    spec = Match(pattern)
    try:
        res = glom(target, spec)
        got = ('ok', res)
    except Exception as e:
        got = ('exc', e)
    oc = want[0] + (':' + want[1] if want[0] == 'fail' else '')
    if snap(target) != before:
        return R({'expected': 'target unchanged', 'observed': repr(target), **where}, oc)
    if want[0] == 'ok':
        if got[0] != 'ok':
            return R({'expected': 'match succeeds with %r' % (want_val,), 'observed': 'raised %r' % (got[1],), **where}, oc)
        if not (same(got[1], want_val) and type(got[1]) is type(want_val)) and not (isinstance(want_val, dict) and same(dict(got[1]), want_val)):
            return R({'expected': 'returns %r' % (want_val,), 'observed': 'returns %r' % (got[1],), **where}, oc)
    else:
        if got[0] == 'ok':
            return R({'expected': 'rejection (%s)' % want[1], 'observed': 'returned %r' % (got[1],), **where}, oc)
        e = got[1]
        if want[1].startswith('py:'):
            if want[1][3:] not in [c.__name__ for c in type(e).__mro__]:
                return R({'expected': 'propagates ' + want[1][3:], 'observed': repr(e), **where}, oc)
        else:
            if not isinstance(e, MatchError) or not isinstance(e, GlomError):
                return R({'expected': 'MatchError', 'observed': '%s %r' % (type(e).__name__, e), **where}, oc)
            if want[1] == 'type' and not (isinstance(e, TypeMatchError) and isinstance(e, TypeError)):
                return R({'expected': 'TypeMatchError (also a TypeError)', 'observed': '%s %r' % (type(e).__name__, e), **where}, oc)
    if want[0] == 'ok' and p[0] not in ('lit', 'type', 'regex', 'pred', 'M'):
        # history: the caller modifies the first result, then the SAME Match object is used again
        scribble(got[1])
        try:
            res2 = glom(bt(tt), spec)
        except Exception as e:
            res2 = e
        want2 = ref(p, bt(tt))
        if isinstance(res2, Exception) or not (same(res2, want2) or (isinstance(want2, dict) and same(dict(res2), want2))):
            return R({'expected': 'second use of the same Match object returns %r again' % (want2,), 'observed': repr(res2),
                      'history': 'first result modified in place by the caller', **where}, oc)
    # matches() / verify() / default agree
    py = want[0] == 'fail' and want[1].startswith('py:')
    if not py:
        try:
            m = Match(bp(p)).matches(bt(tt))
        except Exception as e:
            m = e
        if m is not (want[0] == 'ok'):
            return R({'expected': 'matches() is %r' % (want[0] == 'ok'), 'observed': repr(m), **where}, oc)
        try:
            v = ('ok', Match(bp(p)).verify(bt(tt)))
        except Exception as e:
            v = ('exc', e)
        if (v[0] == 'ok') != (want[0] == 'ok') or (v[0] == 'exc' and not isinstance(v[1], MatchError)):
            return R({'expected': 'verify() agrees (%s)' % want[0], 'observed': repr(v), **where}, oc)
        sentinel = ['default-object']
        try:
            d = glom(bt(tt), Match(bp(p), default=sentinel))
        except Exception as e:
            d = e
        if want[0] == 'fail' and d != sentinel:
            return R({'expected': 'Match(default=) returns the default', 'observed': repr(d), **where}, oc)
        if want[0] == 'ok' and (isinstance(d, Exception) or d == sentinel):
            return R({'expected': 'Match(default=) returns the match', 'observed': repr(d), **where}, oc)
    return R(None, oc, nontrivial=True, steps=4, tags={p[0]})


# ------------------------------------------------------------------ pattern generator

LEAVES = [['lit', 1], ['lit', 'a'], ['lit', None], ['type', 'int'], ['type', 'str'], ['type', 'object'], ['type', 'even'],
          ['regex', 'a+'], ['pred', 'pos'], ['pred', 'boom'], ['pred', 'ratio'], ['pred', 'partial-gt3'], ['pred', 'callable-object'], ['pred', 'vague'], ['regex-bytes', 'a+'], ['M', '>', 0], ['M', '==', 'a'], ['M', '>=', 0], ['M', '<=', 0.5], ['M', '!=', 'a'],
          ['and', [['type', 'int'], ['M', '>', 0]]], ['or', [['type', 'int'], ['type', 'str']]], ['or', [['lit', 1], ['lit', 'a']]],
          ['not', ['type', 'str']], ['not', ['lit', 1]]]
HASHABLE_KEYS = [['lit', 'k'], ['lit', 1], ['type', 'str'], ['type', 'int'], ['type', 'object'], ['regex', 'k+'],
                 ['or', [['lit', 'k'], ['lit', 'j']]], ['tuple', [['type', 'str'], ['lit', 1]]]]


def hashable(p):
    return p[0] in ('lit', 'type', 'regex', 'regex-bytes', 'pred', 'and', 'or', 'not') or (p[0] in ('tuple', 'fset') and all(hashable(x) for x in p[1]))


def containers(kids, wide):
    out = []
    k1 = kids
    k2 = kids[:wide]
    out.append(['list', []])
    out.append(['tuple', []])
    out.append(['set', []])
    out.append(['dict', []])
    for a in k1:
        out.append(['list', [a]])
        out.append(['tuple', [a]])
        if hashable(a) and a[0] not in ('M',):
            out.append(['set', [a]])
            out.append(['fset', [a]])
        out.append(['dict', [[['lit', 'k'], a]]])
        out.append(['dict', [[['type', 'str'], a]]])
        out.append(['dict', [[['opt', 'k'], a]]])
        out.append(['dict', [[['opt', 'k', 7], a]]])
        out.append(['dict', [[['opt', 'k', []], a]]])
        out.append(['dict', [[['opt', 'j', {'d': [1]}], ['type', 'object']], [['lit', 'k'], a]]])
        out.append(['dict', [[['req', ['type', 'str']], a]]])
        out.append(['dict', [[['type', 'object'], a]]])
    for a in k2:
        for b in k2:
            out.append(['list', [a, b]])
            out.append(['tuple', [a, b]])
            out.append(['dict', [[['lit', 'k'], a], [['lit', 'j'], b]]])
            out.append(['dict', [[['lit', 'k'], a], [['type', 'str'], b]]])
            out.append(['dict', [[['type', 'str'], a], [['lit', 'k'], b]]])
            out.append(['dict', [[['opt', 'k', 'dflt'], a], [['type', 'str'], b]]])
            out.append(['dict', [[['type', 'int'], a], [['type', 'str'], b]]])
            out.append(['dict', [[['opt', 'k'], a], [['opt', 'j', 0], b]]])
            out.append(['or', [a, b]])
            out.append(['and', [a, b]])
    for key in HASHABLE_KEYS:
        for a in kids[:6]:
            out.append(['dict', [[key, a]]])
            out.append(['dict', [[['lit', 'x'], a], [key, ['type', 'object']]]])
    # And: every child sees the ORIGINAL target (a child that adds Optional defaults does not feed the next one)
    opt = ['dict', [[['opt', 'k', 0], ['type', 'int']], [['type', 'str'], ['type', 'object']]]]
    for other in (['dict', [[['lit', 'k'], ['type', 'int']], [['type', 'str'], ['type', 'object']]]], ['dict', [[['type', 'str'], ['type', 'object']]]],
                  ['dict', [[['opt', 'j', 1], ['type', 'int']], [['type', 'str'], ['type', 'object']]]], ['type', 'dict'], ['not', ['dict', [[['lit', 'k'], ['type', 'object']]]]]):
        out.append(['and', [opt, other]])
        out.append(['and', [other, opt]])
        out.append(['or', [['and', [opt, other]], ['type', 'object']]])
    out.append(['set', [['lit', 1], ['lit', 'a']]])
    out.append(['set', [['type', 'int'], ['type', 'str']]])
    out.append(['fset', [['type', 'int'], ['lit', 'a']]])
    for a in kids[:wide]:
        out.append(['not', a])
    return out


def gen_cases(tier):
    depth = 2 if tier == 'quick' else 3
    wide = 10 if tier == 'quick' else 14
    reps = 2 if tier == 'quick' else 4
    level = LEAVES
    patterns = list(LEAVES)
    for d in range(1, depth + 1):
        if d == 1:
            kids = LEAVES
        else:
            # representatives: first 2 per constructor (and per dict key kind)
            b, kids = {}, list(LEAVES[:6])
            for p in level:
                key = (p[0], p[1][0][0][0] if p[0] == 'dict' and p[1] else '', len(p[1]) if isinstance(p[1], list) else 0)
                if b.get(key, 0) < reps:
                    b[key] = b.get(key, 0) + 1
                    kids.append(p)
        level = containers(kids, wide if d == 1 else (5 if tier == 'quick' else 8))
        patterns.extend(level)
    cases, seen = [], set()
    for p in patterns:
        key = json.dumps(p)
        if key in seen:
            continue
        seen.add(key)
        for t in targets_for(p):
            cases.append([p, t])
    return cases


def subs(tier, only=None):
    from ..engine import fast_tracebacks
    fast_tracebacks()
    return [Sub('match', gen_cases(tier), run_case,
                rule='case = (pattern term, target term); targets = witnesses of the pattern + all one-edit mutations + 15 unrelated; '
                     'glom(t, Match(p)), matches(), verify(), Match(default=) and the target snapshot are checked',
                min_nontrivial=5000, min_outcomes=3,
                required_tags=['lit', 'type', 'regex', 'pred', 'M', 'and', 'or', 'not', 'list', 'set', 'fset', 'tuple', 'dict'])]
