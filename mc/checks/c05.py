"""C05 - Error messages carry a faithful target-spec trace down to the failing spec.

Enumerated: spec terms of depth <= 3 over linear constructs {dict, list, tuple, Pipe, Spec,
Auto, And} and branching constructs {Coalesce, Or, Switch} with leaves that succeed or fail
in seven ways (missing key, T item miss, T attribute miss, raising callable, Check failure,
M comparison, Match type failure, scope miss), so that a failure is planted at every leaf
position, including "a branch failed and was abandoned, a later spec raised"; x targets whose
reprs are short, long (truncated) and non-ASCII.  Oracle: a reference interpreter computes
the failure spine (frames from the root spec to the innermost failing spec, attempted
branches with their own spines and errors); the trace text is parsed into a tree of
Target / Spec / error lines and compared structurally (value renderings are matched up to
truncation).  The last line must be the type and message of the original error.
"""
import itertools
import json
import re
import traceback

from glom import glom, T, S, Coalesce, Or, And, Switch, Pipe, Spec, Auto, Check, Match, M, Val, GlomError

from ..engine import R, Sub

PROPERTY = 'C05'
LEVEL = 'fault_enumeration'
ASSUMPTIONS = [
    'a completed earlier step of a tuple / Pipe on the spine may appear as one frame of its own (optional); a Target line is required whenever '
    'the target object changes and is otherwise optional',
    'a branching spec with exactly one attempted branch may be rendered in-line, closed by an in-line error line',
    'spec leaves have address-free reprs; Match-mode container patterns are outside the alphabet',
    'terminal width: whatever the library computed at import (values are matched up to the documented truncation suffixes)',
]


class EmptyProblems(GlomError):
    """a GlomError that is FALSY (sized by its list of problems, raised with none): abandoned like any other GlomError, and shown"""
    def __init__(self, *problems):
        GlomError.__init__(self, *problems)
        self.problems = list(problems)

    def __len__(self):
        return len(self.problems)

    def get_message(self):
        return 'problems: %r' % (self.problems,)


class MissingField(KeyError):
    pass


class Fn:
    def __init__(self, name):
        self.name = name

    def __call__(self, t):
        if self.name == 'falsy':
            raise EmptyProblems()
        if self.name == 'fnf':
            raise FileNotFoundError(2, 'No such file or directory', 'data.json')      # inherits OSError.__str__
        if self.name == 'keysub':
            raise MissingField('price')                                               # inherits KeyError.__str__
        if self.name == 'paragraphs':
            raise ValueError('bad input near column 5:\n\n  a = = 1\n      ^\n\nsecond paragraph')     # blank and caret-only lines belong to the message
        if self.name == 'boom':
            raise ValueError('boom from fn')
        if self.name == 'copy':
            return equal_copy(t)
        if self.name == 'syntax':
            compile('1 +', '<unknown>', 'eval')     # a real SyntaxError with location info (its rendering has several lines)
        if self.name == 'nested':
            return glom(t, 'zz_inner')              # a nested glom() call that fails: its error carries a trace of its own
        if self.name == 'nestedlog':
            try:
                return glom(t, 'zz_inner')
            except GlomError as e:
                str(e)                              # user code that logs the inner error before re-raising it
                raise
        return t

    def __repr__(self):
        return 'fn_' + self.name


def equal_copy(t):
    """an EQUAL but not identical value (the trace must still show it as a new target)"""
    if isinstance(t, dict):
        return dict(t)
    if isinstance(t, list):
        return list(t)
    if isinstance(t, bool):
        return t
    if isinstance(t, int):
        return float(t)
    return t


def skip_value_factory():
    return SKIP_VALUE


def build(term):
    """-> live spec object; also annotates the term (a list) with the object under key index -1 via a side table"""
    k = term[0]
    if k == 'path':
        obj = term[1]
    elif k == 'Tbare':
        obj = T
    elif k == 'T':
        obj = T[term[1]]
    elif k == 'Tattr':
        obj = getattr(T, term[1])
    elif k == 'S':
        obj = getattr(S, term[1])
    elif k == 'fn':
        obj = Fn(term[1])
    elif k == 'check':
        obj = Check(type=str)
    elif k == 'm':
        obj = (M > term[1])
    elif k == 'match':
        obj = Match(str)
    elif k == 'val':
        obj = Val(term[1])
    elif k == 'dict':
        obj = {('k%d' % i): build(x) for i, x in enumerate(term[1])}
    elif k == 'list':
        obj = [build(term[1][0])]
    elif k == 'tuple':
        obj = tuple(build(x) for x in term[1])
    elif k == 'pipe':
        obj = Pipe(*[build(x) for x in term[1]])
    elif k == 'spec':
        obj = Spec(build(term[1][0]))
    elif k == 'auto':
        obj = Auto(build(term[1][0]))
    elif k == 'coalesce':
        obj = Coalesce(*[build(x) for x in term[1]])
    elif k == 'coalesce_skip':
        obj = Coalesce(*[build(x) for x in term[1]], skip=SKIP_VALUE)
    elif k == 'coalesce_any':
        obj = Coalesce(*[build(x) for x in term[1]], skip_exc=Exception)
    elif k == 'coalesce_default':
        # recovers from every GlomError with a value that a skip=SKIP_VALUE parent skips; default_factory, so that no further child is evaluated
        obj = Coalesce(*[build(x) for x in term[1]], default_factory=skip_value_factory)
    elif k == 'checksub':
        obj = Check(build(term[1][0]), type=str)
    elif k == 'or':
        obj = Or(*[build(x) for x in term[1]])
    elif k == 'and':
        obj = And(*[build(x) for x in term[1]])
    elif k == 'switch':
        obj = Switch([(build(a), build(b)) for a, b in term[1]])
    else:
        raise AssertionError(term)
    LIVE[id(term)] = obj
    return obj


LIVE = {}
SKIP_VALUE = 3     # targets()['*']['n'] == 3: a branch reading it yields a skipped VALUE (no error)


EID = [0]


class Fail(Exception):
    """eid identifies the exception OBJECT: it stays the same while the error propagates and changes when a construct raises its own error"""
    def __init__(self, err, is_glom, spine, eid=None):
        self.err, self.is_glom, self.spine = err, is_glom, spine
        if eid is None:
            EID[0] += 1
            eid = EID[0]
        self.eid = eid
        for fr in spine:
            if fr.get('eid') is None:
                fr['eid'], fr['err'] = eid, err


def frame(term, target, attempts=None, optional=False, text=None):
    return {'spec': LIVE[id(term)], 'target': target, 'attempts': attempts, 'optional': optional, 'text': text, 'eid': None, 'err': None}


def ev(term, target):
    k = term[0]
    F = lambda err, glom_err=True: Fail(err, glom_err, [frame(term, target)])
    if k == 'path':
        if isinstance(target, dict):
            if term[1] in target:
                return target[term[1]]
            raise F('PathAccessError')
        if isinstance(target, (list, tuple)):
            try:
                return target[int(term[1])]
            except (ValueError, IndexError):
                raise F('PathAccessError')
        try:
            return getattr(target, term[1])
        except AttributeError:
            raise F('PathAccessError')
    if k == 'Tbare':
        return target
    if k == 'T':
        try:
            return target[term[1]]
        except (KeyError, IndexError, TypeError):
            raise F('PathAccessError')
    if k == 'Tattr':
        try:
            return getattr(target, term[1])
        except AttributeError:
            raise F('PathAccessError')
    if k == 'S':
        raise F('PathAccessError')
    if k == 'fn':
        if term[1] == 'boom':
            raise F('ValueError', False)
        if term[1] == 'copy':
            return equal_copy(target)
        if term[1] == 'syntax':
            raise F('SyntaxError', False)
        if term[1] in ('nested', 'nestedlog'):
            raise F('PathAccessError')
        if term[1] == 'falsy':
            raise F('EmptyProblems')
        if term[1] == 'fnf':
            raise F('FileNotFoundError', False)
        if term[1] == 'keysub':
            raise F('MissingField', False)
        if term[1] == 'paragraphs':
            raise F('ValueError', False)
        return target
    if k == 'check':
        if type(target) is str:
            return target
        raise F('CheckError')
    if k == 'm':
        try:
            ok = target > term[1]
        except TypeError:
            raise F('TypeError', False)
        if ok:
            return target
        raise F('MatchError')
    if k == 'match':
        if isinstance(target, str):
            return target
        inner = {'spec': str, 'target': target, 'attempts': None, 'optional': False, 'text': 'str', 'eid': None, 'err': None}
        raise Fail('TypeMatchError', True, [frame(term, target), inner])
    if k == 'val':
        return term[1]
    kids = term[1]
    if k == 'dict':
        out = {}
        for i, kid in enumerate(kids):
            try:
                out['k%d' % i] = ev(kid, target)
            except Fail as f:
                raise Fail(f.err, f.is_glom, [frame(term, target)] + f.spine, f.eid)
        return out
    if k == 'list':
        if isinstance(target, (str, bytes)) or not hasattr(type(target), '__iter__'):
            raise F('UnregisteredTarget')
        out = []
        for item in target:
            try:
                out.append(ev(kids[0], item))
            except Fail as f:
                raise Fail(f.err, f.is_glom, [frame(term, target)] + f.spine, f.eid)
        return out
    if k in ('tuple', 'pipe'):
        cur = target
        done = []
        for kid in kids:
            try:
                nxt = ev(kid, cur)
            except Fail as f:
                raise Fail(f.err, f.is_glom, [frame(term, target)] + done + f.spine, f.eid)
            done.append(frame(kid, cur, optional=True))
            cur = nxt
        return cur
    if k in ('spec', 'auto'):
        try:
            return ev(kids[0], target)
        except Fail as f:
            raise Fail(f.err, f.is_glom, [frame(term, target)] + f.spine, f.eid)
    if k == 'and':
        res = target
        for kid in kids:
            try:
                res = ev(kid, target)
            except Fail as f:
                raise Fail(f.err, f.is_glom, [frame(term, target)] + f.spine, f.eid)
        return res
    if k == 'coalesce':
        attempts = []
        for kid in kids:
            try:
                return ev(kid, target)
            except Fail as f:
                if f.is_glom:
                    attempts.append({'spine': f.spine, 'err': f.err, 'closed': True})
                    continue
                attempts.append({'spine': f.spine, 'err': f.err, 'closed': False})
                raise Fail(f.err, False, [frame(term, target, attempts)], f.eid)
        raise Fail('CoalesceError', True, [frame(term, target, attempts)])
    if k == 'coalesce_default':
        for kid in kids:
            try:
                return ev(kid, target)
            except Fail as f:
                if f.is_glom:
                    continue
                raise Fail(f.err, False, [frame(term, target, [{'spine': f.spine, 'err': f.err, 'closed': False}])], f.eid)
        return SKIP_VALUE          # recovered: nothing of the failed branches belongs to a later error
    if k == 'checksub':
        try:
            v = ev(kids[0], target)
        except Fail as f:
            raise Fail(f.err, f.is_glom, [frame(term, target)] + f.spine, f.eid)
        if type(v) is str:
            return target
        raise F('CheckError')       # raised by the Check itself: the trace ends at this spec
    if k == 'coalesce_any':      # skip_exc=Exception: every failing branch is abandoned, whatever its class
        attempts = []
        for kid in kids:
            try:
                return ev(kid, target)
            except Fail as f:
                attempts.append({'spine': f.spine, 'err': f.err, 'closed': True})
        raise Fail('CoalesceError', True, [frame(term, target, attempts)])
    if k == 'coalesce_skip':
        attempts = []
        last_was_attempt = False
        for kid in kids:
            try:
                v = ev(kid, target)
            except Fail as f:
                if f.is_glom:
                    attempts.append({'spine': f.spine, 'err': f.err, 'closed': True})
                    last_was_attempt = True
                    continue
                attempts.append({'spine': f.spine, 'err': f.err, 'closed': False})
                raise Fail(f.err, False, [frame(term, target, attempts)], f.eid)
            if v == SKIP_VALUE:
                last_was_attempt = False
                continue
            return v
        fr = frame(term, target, attempts)
        fr['single_inline'] = last_was_attempt     # a lone failed branch is in-lined only when it was the last child evaluated
        raise Fail('CoalesceError', True, [fr])
    if k == 'or':
        attempts = []
        for i, kid in enumerate(kids):
            last = i == len(kids) - 1
            try:
                return ev(kid, target)
            except Fail as f:
                if f.is_glom and not last:
                    attempts.append({'spine': f.spine, 'err': f.err, 'closed': True})
                    continue
                attempts.append({'spine': f.spine, 'err': f.err, 'closed': False})
                raise Fail(f.err, f.is_glom, [frame(term, target, attempts)], f.eid)
    if k == 'switch':
        attempts = []
        for key, val in kids:
            try:
                ev(key, target)
            except Fail as f:
                if f.is_glom:
                    attempts.append({'spine': f.spine, 'err': f.err, 'closed': True})
                    continue
                attempts.append({'spine': f.spine, 'err': f.err, 'closed': False})
                raise Fail(f.err, False, [frame(term, target, attempts)], f.eid)
            try:
                return ev(val, target)
            except Fail as f:
                kf = frame(key, target)
                kf['eid'], kf['err'] = f.eid, f.err
                attempts.append({'spine': [kf] + f.spine, 'err': f.err, 'closed': False})
                raise Fail(f.err, f.is_glom, [frame(term, target, attempts)], f.eid)
        raise Fail('MatchError', True, [frame(term, target, attempts)])
    raise AssertionError(term)


# ---------------------------------------------------------------------------
# parsing the message

LINE = re.compile(r'^ (\|*)([-|\\X+]) (Target|Spec): (.*)$')
ELINE = re.compile(r'^ (\|*)([-|X]) (.*)$')


def parse(msg):
    lines = msg.split('\n')
    if len(lines) < 3 or not lines[1].startswith(' Target-spec trace'):
        return None, None, 'no target-spec trace header'
    items = []
    i = 2
    pending = []      # lines that are neither Target / Spec / error lines: continuation of a multi-line error text, or the tail
    end = 2
    while i < len(lines):
        m = LINE.match(lines[i])
        m2 = None if m else ELINE.match(lines[i])
        is_err = bool(m2) and (':' in m2.group(3) or 'Error' in m2.group(3) or 'File "' in m2.group(3)) and not lines[i].startswith('  ')
        if m or is_err:
            if pending and items and items[-1]['kind'] == 'E':
                items[-1]['text'] += '\n' + '\n'.join(pending)
            elif pending:
                break
            pending = []
            if m:
                items.append({'depth': len(m.group(1)), 'marker': m.group(2), 'kind': m.group(3)[0], 'text': m.group(4)})
            else:
                items.append({'depth': len(m2.group(1)), 'marker': m2.group(2), 'kind': 'E', 'text': m2.group(3)})
            i += 1
            if not m and m2.group(3).endswith('error raised while processing, details below.'):
                # the error of a nested glom() call: its text embeds a complete trace of its own, up to its own final line
                while i < len(lines):
                    items[-1]['text'] += '\n' + lines[i]
                    i += 1
                    if not lines[i - 1].startswith(' '):
                        break
            end = i
            continue
        pending.append(lines[i])
        i += 1
    if pending and items and items[-1]['kind'] == 'E':
        items[-1]['more'] = list(pending)       # a multi-line error text of the last branch, or the tail: the aligner accepts either
    return items, lines[end:], None


def value_matches(text, rendering):
    if text == rendering:
        return True
    m = re.match(r'^(.*?)\.\.\.( \(len=\d+\))?$', text, re.S)
    if m and rendering.startswith(m.group(1)) and len(rendering) > len(m.group(1)):
        return True
    return False


def render(obj, given=None):
    if given is not None:
        return given
    if isinstance(obj, (dict, list)) and is_data(obj):
        return myrepr(obj).replace("\\'", "'")
    return repr(obj).replace("\\'", "'")


def is_data(v):
    if isinstance(v, dict):
        return all(isinstance(k, str) and is_data(x) for k, x in v.items())
    if isinstance(v, (list, tuple)):
        return all(is_data(x) for x in v)
    return isinstance(v, (int, str, float, type(None)))


def expected_items(stack, depth, root_eid, out):
    """the frames / groups / error lines a faithful trace shows for *stack* (single attempts in-lined), appended to out"""
    flat = []

    def flatten(frames):
        for fr in frames:
            flat.append(fr)
            at = fr['attempts']
            if at and len(at) == 1 and fr.get('single_inline', True):
                flatten(at[0]['spine'])
                return True
            if at:
                return True
        return False
    flatten(stack)
    for i, fr in enumerate(flat):
        at = fr['attempts']
        branch = bool(at) and (len(at) >= 2 or not fr.get('single_inline', True))
        out.append({'kind': 'F', 'target': fr['target'], 'spec': fr['spec'], 'text': fr['text'], 'depth': depth, 'optional': fr['optional'], 'branch': branch})
        if branch:
            for a in at:
                out.append({'kind': 'GROUP', 'depth': depth + 1})
                expected_items(a['spine'], depth + 1, root_eid, out)
                out.append({'kind': 'ENDGROUP', 'depth': depth + 1})
        nxt = flat[i + 1]['eid'] if i + 1 < len(flat) else None
        if fr['eid'] is not None and fr['eid'] != root_eid and fr['eid'] != nxt:
            out.append({'kind': 'E', 'err': fr['err'], 'depth': depth})
    return out


def align(exp, items):
    """walk expected and parsed lines together; returns a problem description or None.
    A Target line is required exactly when the target object differs from the last one shown on the way to this frame."""
    i = 0
    group_head = False
    shown = [object()]        # stack of "last target shown", one entry per open branch group
    for e in exp:
        it = items[i] if i < len(items) else None
        if e['kind'] == 'GROUP':
            group_head = True
            shown.append(shown[-1])
            continue
        if e['kind'] == 'ENDGROUP':
            shown.pop()
            continue
        if e['kind'] == 'F':
            j = i
            t_line = None
            if it is not None and it['kind'] == 'T' and it['depth'] == e['depth'] and value_matches(it['text'], render(e['target'])):
                t_line = it
                j = i + 1
            s_line = items[j] if j < len(items) else None
            ok = s_line is not None and s_line['kind'] == 'S' and s_line['depth'] == e['depth'] and value_matches(s_line['text'], render(e['spec'], e['text']))
            if not ok:
                if e['optional']:
                    continue          # a completed chain step that the trace does not list
                if t_line is None and it is not None and it['kind'] == 'T' and it['depth'] == e['depth']:
                    return 'Target line %r does not show what %s received: %s' % (it['text'][:80], render(e['spec'], e['text'])[:80], render(e['target'])[:80])
                return 'expected Spec line for %s at depth %d, found %r' % (render(e['spec'], e['text'])[:120], e['depth'], s_line)
            if t_line is None and e['target'] is not shown[-1]:
                return 'no Target line showing %s although spec %s received a new target' % (render(e['target'])[:80], render(e['spec'], e['text'])[:80])
            first = t_line or s_line
            if group_head and first['marker'] != '\\':
                return 'first line of a branch group is not marked: %r' % (first,)
            if e['branch'] and s_line['marker'] != '+' and not (group_head and t_line is None):
                return 'spec %s with several attempted branches is not rendered as a branch point' % render(e['spec'])[:120]
            group_head = False
            shown[-1] = e['target']
            i = j + 1
            continue
        if e['kind'] == 'E':
            text = '' if it is None else it['text'] + '\n' + '\n'.join(it.get('more', []))
            if it is None or it['kind'] != 'E' or it['depth'] != e['depth'] or e['err'] not in text:
                return 'expected the error that ended this branch (%s) at depth %d, found %r' % (e['err'], e['depth'], it)
            i += 1
    if i < len(items):
        return 'unexpected extra trace lines: %r' % (items[i:i + 3],)
    return None


def myrepr(v):
    """the library renders dicts with sorted keys (reprlib); lists, strings and numbers as repr"""
    if isinstance(v, dict):
        try:
            keys = sorted(v)
        except TypeError:
            keys = list(v)
        return '{' + ', '.join('%s: %s' % (myrepr(k), myrepr(v[k])) for k in keys) + '}'
    if isinstance(v, list):
        return '[' + ', '.join(myrepr(x) for x in v) + ']'
    if isinstance(v, tuple):
        return '(' + ', '.join(myrepr(x) for x in v) + (',' if len(v) == 1 else '') + ')'
    return repr(v)


def targets():
    return {
        # (with an empty string, True and None among the values: they are printed as such)
        'short': {'a': {'b': [1, 2], 's': 'txt', 'e': '', 'flag': True}, 'n': 3, 'l': [{'b': 1}, {'c': 2}], 'none': None, 'yes': True, 'empty': ''},
        'long': {'a': {'b': list(range(1000)), 's': 'x' * 500}, 'n': 3, 'l': [{'b': 1}, {'c': 2}]},
        'unicode': {'a': {'b': ['éè', '中文'], 's': 'ü'}, 'n': 3, 'l': [{'b': 1}, {'c': 2}]},
    }


def run_case(case):
    tname, term = case
    LIVE.clear()
    spec = build(term)
    target = targets()[tname]
    try:
        ev(term, target)
        return R(None, 'no-failure', nontrivial=False)
    except Fail as f:
        want = f
    try:
        glom(target, spec)
        return R({'expected': 'failure %s' % want.err, 'observed': 'no exception', 'spec': repr(spec)}, want.err)
    except Exception as e:
        err = e
    msg = str(err)
    where = {'spec': repr(spec)[:400], 'target': tname, 'message': msg[-1500:]}
    oc = want.err
    if want.err not in [c.__name__ for c in type(err).__mro__]:
        return R({'expected': 'error class %s' % want.err, 'observed': repr(type(err).__mro__[:3]), **where}, oc)
    items, rest, perr = parse(msg)
    if perr:
        return R({'expected': 'a target-spec trace', 'observed': perr, **where}, oc)
    # P1: begins with the root target
    if not items or items[0]['kind'] != 'T' or items[0]['depth'] != 0 or not value_matches(items[0]['text'], render(target)):
        return R({'expected': 'first trace line is the root target', 'observed': repr(items[:1]), **where}, oc)
    exp = expected_items(want.spine, 0, want.eid, [])
    problem = align(exp, items)
    if problem:
        return R({'expected': 'trace follows the failure spine', 'observed': problem, **where}, oc)
    # P4: ends with type and message of the original error
    try:
        glom(target, build(term), glom_debug=True)
        orig = None
    except Exception as e2:
        orig = e2
    last = msg.rstrip('\n').split('\n')[-1]
    expect_last = traceback.format_exception_only(type(orig), orig)[-1].rstrip('\n') if orig is not None else None
    if 'str() failed' in last or 'str() failed' in msg:
        return R({'expected': 'the message of the original error', 'observed': last, **where}, oc, sig='str-failed')
    if expect_last is not None and '\n' in expect_last:
        if not msg.rstrip('\n').endswith(expect_last):
            return R({'expected': 'message ends with %r' % expect_last, 'observed': msg[-600:], **where}, oc)
        last = expect_last
    if expect_last is not None and last != expect_last:
        return R({'expected': 'last line %r' % expect_last, 'observed': last, **where}, oc)
    if want.err not in last:
        return R({'expected': 'last line names %s' % want.err, 'observed': last, **where}, oc)
    return R(None, oc, nontrivial=True, steps=len(items), tags=set(kinds(term)) | {tname})


def kinds(term):
    k = term[0]
    if k in ('path', 'T', 'Tbare', 'Tattr', 'S', 'fn', 'check', 'm', 'match', 'val'):
        return [k if k != 'fn' else 'fn:' + term[1]]
    if k == 'switch':
        return [k] + [x for a, b in term[1] for x in kinds(a) + kinds(b)]
    return [k] + [x for kid in term[1] for x in kinds(kid)]


OK_LEAVES = [['path', 'a'], ['fn', 'ok'], ['fn', 'copy'], ['T', 'n'], ['val', 'v'], ['Tbare']]
FAIL_LEAVES = [['path', 'zz'], ['T', 'zz'], ['Tattr', 'zz'], ['fn', 'boom'], ['fn', 'syntax'], ['fn', 'nested'], ['fn', 'nestedlog'], ['fn', 'falsy'], ['fn', 'fnf'], ['fn', 'keysub'], ['fn', 'paragraphs'], ['check'], ['m', 5], ['match'], ['S', 'zz'], ['path', 'a.zz']]


def outcome_of(term):
    LIVE.clear()
    build(term)
    try:
        ev(term, targets()['short'])
        return 'ok'
    except Fail as f:
        return f.err
    except Exception as e:
        return 'refexc'


def n_fail(term):
    """number of failing leaves inside the term (a recovered branch keeps one although the term succeeds)"""
    k = term[0]
    if k in ('path', 'T', 'Tbare', 'Tattr', 'S', 'fn', 'check', 'm', 'match', 'val'):
        return 1 if term in FAIL_LEAVES else 0
    if k == 'switch':
        return sum(n_fail(a) + n_fail(b) for a, b in term[1])
    return sum(n_fail(x) for x in term[1])


# terms that SUCCEED after abandoning a failed branch: placed before / beside a later failure they must leave no stale branch in the trace
# chains of three and more steps that fail late: inside an abandoned branch their error is not the root error
LONG_CHAINS = [['tuple', [['fn', 'ok'], ['fn', 'copy'], ['path', 'zz']]], ['pipe', [['path', 'a'], ['fn', 'ok'], ['fn', 'copy'], ['T', 'zz']]],
               ['tuple', [['path', 'a'], ['path', 'b'], ['fn', 'ok'], ['check']]], ['tuple', [['fn', 'ok'], ['fn', 'ok'], ['fn', 'boom']]]]
RECOVERED = [['coalesce', [['path', 'zz'], ['path', 'a']]], ['or', [['path', 'zz'], ['path', 'a']]],
             ['switch', [[['path', 'zz'], ['val', 1]], [['fn', 'ok'], ['path', 'a']]]],
             ['coalesce', [['check'], ['T', 'zz'], ['fn', 'ok']]]]


def composites(kids):
    out = []
    for a in kids:
        out.append(['dict', [a]])
        out.append(['spec', [a]])
        out.append(['auto', [a]])
        out.append(['coalesce', [a]])
        out.append(['tuple', [['path', 'l'], ['list', [a]]]])
        out.append(['switch', [[a, ['val', 1]]]])
        out.append(['switch', [[['fn', 'ok'], a]]])
    for a in kids:
        # a failure that is recovered by a default, as the LAST child of a spec that then raises an error of its own
        out.append(['checksub', [['coalesce_default', [a]]]])
        out.append(['coalesce_skip', [['coalesce_default', [a]]]])
        out.append(['coalesce_skip', [['path', 'a'], ['coalesce_default', [a, a]]]])
        out.append(['tuple', [['coalesce_default', [a]], ['check']]])
        out.append(['checksub', [a]])
    # leaves that differ from ['fn', 'boom'] only in the KIND of error text are paired with three partners, not with every other leaf
    text_variants = [['fn', x] for x in ('syntax', 'nestedlog', 'falsy', 'fnf', 'keysub', 'paragraphs')]
    partners = [['path', 'a'], ['path', 'zz'], ['fn', 'ok']]
    pairs = [(a, b) for a, b in itertools.product(kids, repeat=2)
             if (a not in text_variants and b not in text_variants) or (a in text_variants and b in partners) or (b in text_variants and a in partners)]
    for a, b in pairs:
        out.append(['dict', [a, b]])
        out.append(['tuple', [a, b]])
        out.append(['pipe', [a, b]])
        out.append(['coalesce', [a, b]])
        out.append(['coalesce_skip', [a, b]])
        out.append(['coalesce_any', [a, b]])
        out.append(['coalesce_skip', [a, ['T', 'n']]])
        out.append(['or', [a, b]])
        out.append(['and', [a, b]])
        out.append(['switch', [[a, ['val', 1]], [b, ['path', 'zz']]]])
        out.append(['switch', [[a, b]]])
    return out


def coarse(outcome):
    """representatives are chosen per constructor and KIND of outcome; the exception classes of user callables are one kind"""
    return 'user-exception' if outcome in ('ValueError', 'SyntaxError', 'FileNotFoundError', 'MissingField', 'EmptyProblems') else outcome


def gen_cases(tier):
    leaves = OK_LEAVES + FAIL_LEAVES
    level1 = composites(leaves)
    terms = list(FAIL_LEAVES) + level1
    K = 1 if tier == 'quick' else 3
    buckets, reps = {}, []
    for t in level1:
        key = (t[0], coarse(outcome_of(t)), len(t[1]))
        if buckets.get(key, 0) < K:
            buckets[key] = buckets.get(key, 0) + 1
            reps.append(t)
    kids2 = [['path', 'a'], ['path', 'zz'], ['fn', 'boom'], ['fn', 'copy'], ['tuple', [['T', 'n'], ['fn', 'copy']]]] + RECOVERED + LONG_CHAINS + reps
    level2 = composites(kids2)
    terms += level2
    if tier != 'quick':
        buckets, reps2 = {}, []
        for t in level2:
            key = (t[0], outcome_of(t), len(t[1]))
            if buckets.get(key, 0) < 2:
                buckets[key] = buckets.get(key, 0) + 1
                reps2.append(t)
        terms += composites([['path', 'a'], ['path', 'zz'], ['fn', 'boom']] + RECOVERED[:2] + reps2[:40])
    cases, seen = [], set()
    n_all = 0
    first_levels = set(json.dumps(t) for t in list(FAIL_LEAVES) + level1)
    for t in terms:
        key = json.dumps(t)
        if key in seen:
            continue
        seen.add(key)
        if outcome_of(t) == 'ok':
            continue
        n_all += 1
        deep = key not in first_levels
        for tname in ('short', 'long', 'unicode'):
            if tier == 'quick' and deep and tname != 'short' and (n_all % 7 or tname == 'unicode'):
                continue
            cases.append([tname, t])
    return cases


# ---------------------------------------------------------------------------
# long displayed values: the (truncated) Target line must be a prefix of a faithful rendering of the object received

import collections
import reprlib


class Rows(list):
    def __repr__(self):
        return 'Rows<%s>' % ', '.join(repr(x) for x in self)


class Pair(tuple):
    def __repr__(self):
        return 'Pair<%s>' % ', '.join(repr(x) for x in self)


class Table(dict):
    def __repr__(self):
        return 'Table<%s>' % ', '.join('%r=%r' % kv for kv in self.items())


class Cursor:
    """a long-printing object whose len() raises something other than TypeError (a result set on a closed connection, a dead proxy)"""
    def __init__(self, exc):
        self.exc = exc

    def __len__(self):
        raise self.exc('no length available')

    def __repr__(self):
        return 'Cursor<%s>' % ', '.join('row%d' % i for i in range(N_LONG))


class NegativeLen(Cursor):
    def __len__(self):
        return -1            # len() raises ValueError


N_LONG = 150
LONG_VALUES = {
    'ordereddict-reversed': lambda: collections.OrderedDict(('k%03d' % i, i) for i in reversed(range(N_LONG))),
    'defaultdict': lambda: collections.defaultdict(None, ((i, [i]) for i in range(N_LONG))),
    'list-subclass-own-repr': lambda: Rows(range(N_LONG)),
    'tuple-subclass-own-repr': lambda: Pair(range(N_LONG)),
    'dict-subclass-own-repr': lambda: Table((i, i) for i in range(N_LONG)),
    'dict-unsorted-insertion': lambda: {'key%d' % i: i for i in range(N_LONG)},
    'dict-int-keys-reversed': lambda: {i: i for i in reversed(range(N_LONG))},
    'deque': lambda: collections.deque(range(N_LONG)),
    'plain-list': lambda: list(range(N_LONG)),
    'plain-tuple': lambda: tuple(range(N_LONG)),
    'list-of-long-dicts': lambda: [{'key%d' % i: i for i in range(N_LONG)}, 1],
    'eight-levels-of-lists': lambda: [[[[[[[[1, 2]]]]]]], 0],
    'nine-levels-mixed': lambda: {'a': [{'b': ({'c': [{'d': [{'e': 'deep'}]}]},)}]},
    'cyclic-list': lambda: mk_cyclic_list(),
    'cyclic-dict': lambda: mk_cyclic_dict(),
    'len-raises-RuntimeError': lambda: Cursor(RuntimeError),
    'len-raises-ReferenceError': lambda: Cursor(ReferenceError),
    'len-raises-TypeError': lambda: Cursor(TypeError),
    'len-negative': lambda: NegativeLen(None),
    'short-dict-subclass': lambda: Table(a=1),
    'short-ordereddict': lambda: collections.OrderedDict([('b', 1), ('a', 2)]),
}
LONG_POSITIONS = ['root', 'after-step', 'list-item', 'after-callable']
LONG_FAILS = {'path': lambda: 'zz', 'T-item': lambda: T['zz'], 'T-attr': lambda: T.zz, 'fn': lambda: Fn('boom'),
              'chain': lambda: (Fn('ok'), 'zz'), 'coalesce': lambda: Coalesce('zz', T.zz)}

_REPRLIB = reprlib.Repr()
for _name in list(_REPRLIB.__dict__):
    if isinstance(getattr(_REPRLIB, _name), int):
        setattr(_REPRLIB, _name, 1024)


def unrolled(v, depth=25):
    """a cyclic container written out level by level (what a depth-limited printer shows); dict keys sorted"""
    if depth == 0:
        return '...'
    if isinstance(v, dict):
        try:
            keys = sorted(v)
        except TypeError:
            keys = list(v)
        return '{' + ', '.join('%s: %s' % (unrolled(k, depth - 1), unrolled(v[k], depth - 1)) for k in keys) + '}'
    if isinstance(v, list):
        return '[' + ', '.join(unrolled(x, depth - 1) for x in v) + ']'
    return repr(v)


def cut_repr(v, marker, path=()):
    """a container that contains itself, cut off where it comes round again (marker: how the cut is written); dict keys sorted"""
    if isinstance(v, (dict, list)) and id(v) in path:
        return marker(v)
    if isinstance(v, dict):
        try:
            keys = sorted(v)
        except TypeError:
            keys = list(v)
        return '{' + ', '.join('%s: %s' % (cut_repr(k, marker, path + (id(v),)), cut_repr(v[k], marker, path + (id(v),))) for k in keys) + '}'
    if isinstance(v, list):
        return '[' + ', '.join(cut_repr(x, marker, path + (id(v),)) for x in v) + ']'
    return repr(v)


def mk_cyclic_list():
    l = [1, 'two']
    l.append(l)
    return l


def mk_cyclic_dict():
    d = {'k': 1}
    d['self'] = d
    d['l'] = [d]
    return d


def faithful_renderings(v):
    out = []
    for f in (repr, _REPRLIB.repr, myrepr, lambda x: cut_repr(x, lambda c: '...'),
              lambda x: cut_repr(x, lambda c: '[...]' if isinstance(c, list) else '{...}')):
        try:
            out.append(f(v).replace("\\'", "'"))
        except (Exception, RecursionError):
            pass
    return out


def run_long(case):
    vname, position, fname = case
    value = LONG_VALUES[vname]()
    fail = LONG_FAILS[fname]()
    if position == 'root':
        target, spec, shown = value, fail, [value]
    elif position == 'after-step':
        target = {'a': value}
        spec, shown = ('a', fail), [target, value]
    elif position == 'list-item':
        target = {'a': [value]}
        spec, shown = ('a', [fail]), [target, target['a'], value]
    else:
        target = 7
        spec, shown = ((lambda t: value), fail), [7, value]
    try:
        glom(target, spec)
        return R({'expected': 'a failure', 'observed': 'no exception', 'case': repr(case)}, 'no-failure')
    except Exception as e:
        try:
            msg = str(e)
        except Exception as e2:
            return R({'expected': 'a message with a target-spec trace', 'observed': 'str() of the error raised %s' % type(e2).__name__,
                      'value': vname, 'position': position, 'failing spec': fname}, 'message-fails')
    items, rest, perr = parse(msg)
    where = {'value': vname, 'position': position, 'failing spec': fname, 'message': msg[:1200]}
    if perr:
        return R({'expected': 'a target-spec trace', 'observed': perr, **where}, 'parse')
    tlines = [it['text'] for it in items if it['kind'] == 'T']
    # every Target line must display one of the objects the evaluation went through, in order
    k = 0
    for text in tlines:
        while k < len(shown) and not any(value_matches(text, r) for r in faithful_renderings(shown[k])):
            k += 1
        if k == len(shown):
            return R({'expected': 'each Target line is (a prefix of) the representation of the object received; candidates: %s'
                                  % ' / '.join(faithful_renderings(shown[-1])[0][:120] for _ in (0,)),
                      'observed': 'Target: %s' % text, **where}, 'unfaithful')
    if not tlines or not any(value_matches(tlines[-1], r) for r in faithful_renderings(value)):
        return R({'expected': 'the last Target line shows the value the failing spec received (%s...)' % faithful_renderings(value)[0][:100],
                  'observed': 'Target lines: %r' % (tlines,), **where}, 'unfaithful')
    truncated = tlines[-1].endswith(')') and '... (len=' in tlines[-1] or tlines[-1].endswith('...')
    return R(None, ('truncated' if truncated else 'full') + ':' + position, nontrivial=True, steps=len(items), tags={vname, position, fname})


def subs(tier, only=None):
    return [Sub('long-values', [[v, p, f] for v in LONG_VALUES for p in LONG_POSITIONS for f in LONG_FAILS], run_long,
                rule='case = (container of 150 items: dict / list / tuple subclasses with and without a repr of their own, dicts whose insertion order is '
                     'not sorted order, deque; position in the evaluation; failing spec): every Target line must be (a prefix of) repr / reprlib / '
                     'sorted-key rendering of the object the evaluation went through at that point',
                min_nontrivial=250, min_outcomes=4, required_tags=['ordereddict-reversed', 'dict-unsorted-insertion', 'list-subclass-own-repr', 'root', 'list-item']),
            Sub('trace', gen_cases(tier), run_case,
                rule='case = (target kind, spec term with at least one failing leaf reached); the parsed trace is compared with the failure spine of '
                     'the reference interpreter; non-trivial = the evaluation fails',
                min_nontrivial=2000, min_outcomes=5,
                required_tags=['dict', 'list', 'tuple', 'pipe', 'spec', 'auto', 'coalesce', 'coalesce_skip', 'coalesce_any', 'fn:syntax', 'fn:nested', 'fn:nestedlog', 'or', 'and', 'switch', 'fn:copy', 'short', 'long', 'unicode'])]
