"""C17 - Iter pipelines equal the itertools composition, stay lazy, never mutate specs.

Sub-checks
  pipelines : every stage sequence of length <= 3 (thorough: 4, reduced menu at the 4th) over 16
              stage instances of the ten kinds x sources {empty, 0..5, infinite count} x base
              sub-specs {T, SKIP-producing, STOP-producing, sentinel}; the first 5 outputs and
              the number of items pulled from a counting source after each output are compared
              with the composition of map / filter / islice / takewhile / dropwhile /
              chunked_iter / windowed_iter / split_iter / unique_iter / chain.from_iterable.
  terminals : first(key, default) and all() on the same pipelines.
  builders  : explicit-state search over builder histories: a state is the list of specs
              built so far, an event applies any builder method to ANY existing spec; in every
              state repr and behaviour of every earlier spec are unchanged (Iter and Invoke).
"""
import itertools
import json
from itertools import islice, takewhile, dropwhile, chain

from boltons.iterutils import split_iter, chunked_iter, windowed_iter, unique_iter, first as bfirst

from glom import glom, T, Iter, SKIP, STOP, Invoke, Check

from ..engine import R, Sub

PROPERTY = 'C17'
ASSUMPTIONS = [
    'SKIP / STOP / sentinel are honoured by the base Iter(subspec, sentinel=) stage; .map() is plain map',
    'laziness: items pulled after k outputs <= items the reference composition pulls after k+1 outputs; an infinite source has a hard pull cap of 200',
    'cases whose reference never produces output k within the cap on the infinite source are compared up to that point only',
]

CAP = 200


class CapExceeded(BaseException):
    pass


class Source:
    """iterable with a pull counter and a hard cap"""
    def __init__(self, kind):
        self.kind, self.pulls = kind, 0

    def __iter__(self):
        it = iter([]) if self.kind == 'empty' else iter(range(6)) if self.kind == 'six' else itertools.count()
        for x in it:
            self.pulls += 1
            if self.pulls > CAP:
                raise CapExceeded()
            yield x


class PlainSource:
    """a builtin container as target (nothing to count: pulls stays 0)"""
    pulls = 0
    MAKE = {'empty-list': list, 'empty-tuple': tuple, 'empty-dict': dict, 'empty-range': lambda: range(0), 'list-six': lambda: list(range(6)),
            'tuple-six': lambda: tuple(range(6))}

    def __init__(self, kind):
        self.kind = kind
        self.target = self.MAKE[kind]()

    def __iter__(self):
        return iter(self.target)


def mk_source(kind):
    return PlainSource(kind) if kind in PlainSource.MAKE else Source(kind)


def gt2(x):
    return x > 2


def lt3(x):
    return x < 3


def lt2(x):
    return x < 2


def inc(x):
    return x + 1


def mod3(x):
    return x % 3


# name -> (apply to Iter, reference stage)
STAGES = {
    'map-dbl': (lambda i: i.map(T * 2), lambda it: map(lambda x: x * 2, it)),
    'map-inc': (lambda i: i.map(inc), lambda it: map(inc, it)),
    'filter-odd': (lambda i: i.filter(T % 2), lambda it: filter(lambda x: bool(x % 2), it)),
    'filter-gt2': (lambda i: i.filter(gt2), lambda it: filter(gt2, it)),
    'filter-T': (lambda i: i.filter(), lambda it: filter(bool, it)),
    'slice-1-4': (lambda i: i.slice(1, 4), lambda it: islice(it, 1, 4)),
    'slice-step2': (lambda i: i.slice(0, None, 2), lambda it: islice(it, 0, None, 2)),
    'limit-2': (lambda i: i.limit(2), lambda it: islice(it, 2)),
    'takewhile-lt3': (lambda i: i.takewhile(lt3), lambda it: takewhile(lt3, it)),
    'dropwhile-lt2': (lambda i: i.dropwhile(lt2), lambda it: dropwhile(lt2, it)),
    'chunked-2': (lambda i: i.chunked(2), lambda it: chunked_iter(it, 2)),
    'chunked-2-fill': (lambda i: i.chunked(2, fill=None), lambda it: chunked_iter(it, 2, fill=None)),
    'windowed-2': (lambda i: i.windowed(2), lambda it: windowed_iter(it, 2)),
    'windowed-0': (lambda i: i.windowed(0), lambda it: windowed_iter(it, 0)),      # degenerate sizes: nothing comes out
    'limit-0': (lambda i: i.limit(0), lambda it: islice(it, 0)),
    'split-2': (lambda i: i.split(sep=2), lambda it: split_iter(it, sep=2)),
    'split-0': (lambda i: i.split(sep=0), lambda it: split_iter(it, sep=0)),      # a falsy separator is still a separator
    'split-2-max1': (lambda i: i.split(sep=2, maxsplit=1), lambda it: split_iter(it, sep=2, maxsplit=1)),
    'split-none': (lambda i: i.split(), lambda it: split_iter(it)),
    'unique': (lambda i: i.unique(), lambda it: unique_iter(it)),
    'unique-mod3': (lambda i: i.unique(mod3), lambda it: unique_iter(it, key=mod3)),
    'flatten': (lambda i: i.flatten(), lambda it: chain.from_iterable(it)),
}
STAGE_NAMES = list(STAGES)


def skip_odd(x):
    return SKIP if x % 2 else x


def stop_at4(x):
    return STOP if x == 4 else x


BASES = {
    'T': (lambda: Iter(), lambda x: x, None),
    'skipodd': (lambda: Iter(skip_odd), lambda x: ('SKIP' if x % 2 else x), None),
    'stop4': (lambda: Iter(stop_at4), lambda x: ('STOP' if x == 4 else x), None),
    'sentinel3': (lambda: Iter(sentinel=3), lambda x: x, 3),
    'sentinel-inc': (lambda: Iter(inc, sentinel=5), inc, 5),
}


def ref_base(source, base):
    _, f, sentinel = BASES[base]
    for t in source:
        y = f(t)
        if y == 'SKIP':
            continue
        if y == 'STOP' or (sentinel is not None and y == sentinel):
            return
        yield y


def trace(make_iter, source, n=5):
    """-> list of (outcome, pulls after it): ('val', repr) | ('end',) | ('exc', class) | ('cap',)"""
    out = []
    try:
        it = make_iter()
    except CapExceeded:
        return [(('cap',), source.pulls)]
    except Exception as e:
        return [(('exc', type(e).__name__), source.pulls)]
    for _ in range(n):
        try:
            v = next(it)
            out.append((('val', repr(v)), source.pulls))
        except StopIteration:
            out.append((('end',), source.pulls))
            break
        except CapExceeded:
            out.append((('cap',), source.pulls))
            break
        except Exception as e:
            out.append((('exc', type(e).__name__), source.pulls))
            break
    return out


def build_spec(base, stages):
    spec = BASES[base][0]()
    for s in stages:
        spec = STAGES[s][0](spec)
    return spec


def ref_pipeline(source, base, stages):
    it = ref_base(source, base)
    for s in stages:
        it = STAGES[s][1](it)
    return iter(it)


def run_pipeline(case):
    src_kind, base, stages = case
    rsrc = mk_source(src_kind)
    want = trace(lambda: ref_pipeline(rsrc, base, stages), rsrc)
    spec = build_spec(base, stages)
    isrc = mk_source(src_kind)
    got = trace(lambda: glom(getattr(isrc, 'target', isrc), spec), isrc)
    where = {'spec': repr(spec), 'source': src_kind}
    isrc2 = mk_source(src_kind)
    again = trace(lambda: glom(getattr(isrc2, 'target', isrc2), spec), isrc2)      # the same spec OBJECT a second time: nothing may be carried over
    if [x[0] for x in again] != [x[0] for x in got]:
        return R({'expected': 'second evaluation of the same spec object equals the first: %r' % ([x[0] for x in got],),
                  'observed': repr([x[0] for x in again]), **where}, 'second-evaluation')
    oc = want[-1][0][0] if want else 'none'
    for k, (w, g) in enumerate(itertools.zip_longest(want, got)):
        if w is None or g is None:
            return R({'expected': repr([x[0] for x in want]), 'observed': repr([x[0] for x in got]), **where}, oc)
        if w[0][0] == 'cap':
            break    # the reference itself cannot produce output k within the cap: nothing more to compare
        if w[0][0] == 'exc' and g[0][0] == 'exc':
            break    # both fail at the same output position (user-level type errors): class not compared
        if w[0] != g[0]:
            return R({'expected': 'output %d: %r (all: %r)' % (k, w[0], [x[0] for x in want]),
                      'observed': 'output %d: %r (all: %r)' % (k, g[0], [x[0] for x in got]), **where}, oc)
    # laziness
    for k in range(min(len(got), len(want))):
        if want[k][0][0] in ('cap',):
            break
        bound = want[k + 1][1] if k + 1 < len(want) else want[-1][1]
        if got[k][1] > max(bound, want[k][1] + 1):
            return R({'expected': 'after output %d at most %d items pulled (reference pulls %r)' % (k, bound, [x[1] for x in want]),
                      'observed': 'pulled %r' % ([x[1] for x in got],), **where}, oc, sig='eager')
    return R(None, oc, nontrivial=bool(stages) or base != 'T', steps=len(got), tags=set(stages) | {base, src_kind})


def lt1(x):
    return x < 1


def falsy(x):
    return not x          # selects items that are themselves falsy (0, [], ''): a genuine match, not "no match"


def run_terminal(case):
    src_kind, base, stages, term = case
    spec0 = build_spec(base, stages)
    rsrc, isrc = Source(src_kind), Source(src_kind)
    if term[0] == 'all':
        spec = spec0.all()
        ref = lambda: list(ref_pipeline(rsrc, base, stages))
    else:
        key = {'T': T, 'gt2': gt2, 'never': (lambda x: False), 'lt1': lt1, 'falsy': falsy}[term[1]]
        pykey = {'T': bool, 'gt2': gt2, 'never': (lambda x: False), 'lt1': lt1, 'falsy': falsy}[term[1]]
        spec = spec0.first(key=key, default=term[2]) if term[1] != 'T' or term[2] is not None else spec0.first()
        ref = lambda: bfirst(ref_pipeline(rsrc, base, stages), default=term[2], key=pykey)

    def run(f):
        try:
            return ('ok', repr(f()))
        except CapExceeded:
            return ('cap',)
        except Exception as e:
            return ('exc', type(e).__name__)
    want = run(ref)
    got = run(lambda: glom(isrc, spec))
    where = {'spec': repr(spec), 'source': src_kind}
    if want[0] == 'cap':
        return R(None, 'cap', nontrivial=False)
    if want[0] == 'exc' and got[0] == 'exc':
        return R(None, 'exc', steps=1, tags={term[0]})
    if want != got:
        return R({'expected': repr(want), 'observed': repr(got), **where}, want[0])
    if isrc.pulls > rsrc.pulls + 1:
        return R({'expected': 'at most %d items pulled' % (rsrc.pulls + 1), 'observed': '%d pulled' % isrc.pulls, **where}, want[0], sig='eager')
    return R(None, want[0], steps=1, tags={term[0]})


def gen_pipelines(tier):
    maxlen = 3
    cases = []
    seqs = [()]
    for n in range(1, maxlen + 1):
        seqs += list(itertools.product(STAGE_NAMES, repeat=n))
    if tier != 'quick':
        last = ['map-dbl', 'filter-odd', 'slice-1-4', 'chunked-2', 'windowed-2', 'unique', 'flatten', 'takewhile-lt3']
        seqs += [s + (l,) for s in itertools.product(STAGE_NAMES, repeat=3) for l in last]
    for src in ('empty', 'six', 'inf') + tuple(PlainSource.MAKE):
        for base in BASES:
            if tier == 'quick' and src == 'empty' and base != 'T':
                continue
            if src in PlainSource.MAKE and (base != 'T' or (src.endswith('six') and tier == 'quick')):
                continue
            for s in seqs:
                if tier == 'quick' and len(s) == 3 and base in ('sentinel-inc', 'stop4') and src != 'six':
                    continue
                cases.append([src, base, list(s)])
    return cases


def gen_terminals(tier):
    cases = []
    seqs = [()] + list(itertools.product(STAGE_NAMES, repeat=1)) + list(itertools.product(STAGE_NAMES, repeat=2))
    terms = [['all'], ['first', 'T', None], ['first', 'gt2', None], ['first', 'never', 'dflt'], ['first', 'gt2', 'dflt'],
             ['first', 'lt1', 'dflt'], ['first', 'lt1', None], ['first', 'falsy', 'dflt'], ['first', 'falsy', 7]]
    for src in ('empty', 'six', 'inf'):
        for base in ('T', 'skipodd', 'sentinel3'):
            for s in seqs:
                for t in terms:
                    if src == 'inf' and t[0] == 'all' and base != 'sentinel3' and not any(x in s for x in ('limit-2', 'slice-1-4', 'takewhile-lt3')):
                        continue
                    cases.append([src, base, list(s), t])
    return cases


# ---------------------------------------------------------------------------
# builder histories

ITER_EVENTS = ['map-dbl', 'filter-odd', 'unique', 'limit-2', 'chunked-2', 'unique-mod3', 'slice-1-4', 'windowed-2', 'takewhile-lt3', 'flatten', 'split-2']


def behaviour_iter(spec):
    src = Source('six')
    return (repr(spec), tuple(trace(lambda: glom(src, spec), src, n=8)))


def pack(*a, **kw):
    return (a, tuple(sorted(kw.items())))


INVOKE_EVENTS = {
    'const-1': lambda i: i.constants(1),
    'const-kw': lambda i: i.constants(k='c'),
    'specs-T': lambda i: i.specs(T),
    'specs-kw': lambda i: i.specs(k=T),
    'star-args': lambda i: i.star(args=T['l']),
    'star-kwargs': lambda i: i.star(kwargs=T['d']),
}


def behaviour_invoke(spec):
    target = {'l': [7, 8], 'd': {'z': 9}}
    try:
        out = ('ok', repr(glom(target, spec)))
    except Exception as e:
        out = ('exc', type(e).__name__)
    return (repr(spec), out)


def run_history(case):
    family, base, hist = case
    if family == 'iter':
        specs = [BASES[base][0]()]
        apply = lambda s, ev: STAGES[ev][0](s)
        beh = behaviour_iter
    else:
        specs = [Invoke(pack)]
        apply = lambda s, ev: INVOKE_EVENTS[ev](s)
        beh = behaviour_invoke
    recorded = [beh(specs[0])]
    ids = {id(specs[0])}
    for step, (idx, ev) in enumerate(hist):
        new = apply(specs[idx], ev)
        if id(new) in ids:
            return R({'expected': 'a builder method returns a new spec', 'observed': 'returned an existing spec', 'history': hist}, 'history')
        specs.append(new)
        ids.add(id(new))
        recorded.append(beh(new))
        # invariant in this state: every earlier spec is unchanged
        for i, s in enumerate(specs):
            now = beh(s)
            if now != recorded[i]:
                return R({'expected': 'spec #%d unchanged: %r' % (i, recorded[i]), 'observed': repr(now),
                          'after_event': [idx, ev], 'history': hist}, 'history')
        # differential: the derived spec equals the same chain built from scratch
        chain_events = lineage(hist, len(specs) - 1)
        fresh = BASES[base][0]() if family == 'iter' else Invoke(pack)
        for e in chain_events:
            fresh = apply(fresh, e)
        if beh(fresh) != recorded[-1]:
            return R({'expected': 'same as the chain built from scratch: %r' % (beh(fresh),), 'observed': repr(recorded[-1]),
                      'history': hist}, 'history')
    return R(None, 'ok', nontrivial=len(hist) > 1, steps=len(hist), tags={family} | {ev for _, ev in hist})


def lineage(hist, idx):
    """events leading from the root spec to spec #idx"""
    out = []
    while idx > 0:
        parent, ev = hist[idx - 1]
        out.append(ev)
        idx = parent
    return list(reversed(out))


def gen_histories(tier):
    depth = 3
    cases = []
    for family, events, bases in (('iter', ITER_EVENTS, ['T', 'sentinel3', 'skipodd']), ('invoke', list(INVOKE_EVENTS), ['-'])):
        evs = events if tier != 'quick' else events[:6]
        for base in bases:
            frontier = [[]]
            for d in range(depth):
                nxt = []
                for h in frontier:
                    for idx in range(len(h) + 1):       # any existing spec, not only the newest
                        for ev in evs:
                            nxt.append(h + [[idx, ev]])
                cases.extend([family, base, h] for h in nxt)
                frontier = nxt
    return cases


def subs(tier, only=None):
    from ..engine import fast_tracebacks
    fast_tracebacks()
    out = [
        Sub('pipelines', gen_pipelines(tier), run_pipeline,
            rule='case = (source, base sub-spec, stage sequence); first 5 outputs and pull counts vs the itertools/boltons composition',
            min_nontrivial=5000, min_outcomes=3, required_tags=STAGE_NAMES + list(BASES) + ['empty', 'six', 'inf', 'empty-list', 'empty-dict']),
        Sub('terminals', gen_terminals(tier), run_terminal,
            rule='case = (source, base, stage sequence of length <= 2, all() | first(key, default))', min_nontrivial=1000, min_outcomes=2,
            required_tags=['all', 'first']),
        Sub('builders', gen_histories(tier), run_history,
            rule='case = builder history of depth <= 3: each event applies a builder method to ANY spec built so far; invariant in every state: '
                 'repr and behaviour of every earlier spec unchanged, new spec distinct and equal to the chain built from scratch',
            min_nontrivial=1000, min_outcomes=1, required_tags=['iter', 'invoke']),
    ]
    return [s for s in out if only in (None, s.name)]
