"""C04 - Exceptions keep their class; glom failures are GlomErrors; default is selective.

Fault enumeration.  ~30 spec skeletons, one per place where user code is entered (auto
callable, T call, Call / Invoke function, Coalesce skip predicate and default_factory, Check
validator, Match predicate, Fold op / init, Merge op, Group key function, Iter map function
consumed inside the call, Assign missing factory, target __getitem__ / __getattr__ / __iter__,
registered get / iterate / assign handlers), nested at depth 0-3.  A fault-free run counts the
fault sites of a skeleton; then ONE execution per (site, exception shape, kwargs setting): all
executions with exactly one deviation.  Bound 2: a first fault absorbed by an enclosing
Coalesce / Or / Match default / Switch, a second one that escapes.  Plus the table of
failures glom detects itself.
"""
import itertools

import glom as G
from glom import (glom, T, S, Coalesce, Call, Invoke, Check, Match, Fold, Merge, Iter, Assign, Delete, Glommer, Or, And, Switch, Val, Spec, M, Auto, Fill,
                  GlomError, PathAccessError, CoalesceError, UnregisteredTarget, BadSpec, CheckError, MatchError, TypeMatchError, FoldError,
                  PathAssignError, PathDeleteError, Path, A, Pipe, Ref)
from glom.grouping import Group

from ..engine import R, Sub

PROPERTY = 'C04'
LEVEL = 'fault_enumeration'
ASSUMPTIONS = [
    '"can be rebuilt from its args" is read as: the constructor accepts the args, the new instance accepts attribute assignment (needed to attach the trace) AND the class can be subclassed (an object that is also a GlomError needs a common subclass)',
    'pass-through sites: the exception object O raised by user code must leave glom() as an instance of type(O) with args == O.args; if '
    'type(O)(*O.args) succeeds the escaping object must also be a GlomError',
    'converting sites (documented): path access handlers -> PathAccessError, Match predicate -> MatchError, Check validator -> CheckError, '
    '__iter__ of a list-spec target -> TypeError, assign / delete handlers -> PathAssignError / PathDeleteError; BaseExceptions that are not '
    'Exceptions always propagate untouched',
    'skip_exc is matched against the exception at its origin; default alone means skip_exc=GlomError',
]

# ---------------------------------------------------------------------------
# exception catalogue

class Plain(Exception):
    pass


class ArithmeticSub(ArithmeticError):
    pass


class WithAttrs(Exception):
    def __init__(self, msg):
        Exception.__init__(self, msg)
        self.code = 42
        self.payload = {'k': [1]}


class TwoArg(Exception):
    def __init__(self, a, b):
        Exception.__init__(self, a, b)
        self.a, self.b = a, b


class NonRebuildable(Exception):
    def __init__(self, a, b):
        Exception.__init__(self, a)     # args has one element, the constructor needs two
        self.b = b


class KwOnly(Exception):
    def __init__(self, *, code):
        Exception.__init__(self, 'code %s' % code)
        self.code = code


class ArityChange(Exception):
    def __init__(self):
        Exception.__init__(self, 'fixed message', 7)


class MsgPrefix(Exception):
    def __init__(self, msg):
        Exception.__init__(self, 'Pfx: ' + msg)


class Slotted(Exception):
    __slots__ = ('extra',)

    def __init__(self, msg):
        Exception.__init__(self, msg)
        self.extra = 'x'


class GPlain(GlomError):
    pass


class GTwoArg(GlomError):
    def __init__(self, a, b):
        GlomError.__init__(self, a, b)


class GNonRebuildable(GlomError):
    def __init__(self, a, b):
        GlomError.__init__(self, a)
        self.b = b


class GKwOnly(GlomError):
    def __init__(self, *, code):
        GlomError.__init__(self, 'code %s' % code)
        self.code = code


class GArityChange(GlomError):
    def __init__(self):
        GlomError.__init__(self, 'fixed', 7)


class GMsgPrefix(GlomError):
    def __init__(self, msg):
        GlomError.__init__(self, 'Pfx: ' + msg)


class GMultiple(GlomError, ValueError):
    pass


class MyBase(BaseException):
    pass


# user subclasses of glom's own error classes (raised by user code): the caller's `except MyX` must keep working
class MyPathAccessError(PathAccessError):
    pass


class MyMatchError(MatchError):
    pass


class MyTypeMatchError(TypeMatchError):
    pass


class MyCheckError(CheckError):
    pass


class MyCoalesceError(CoalesceError):
    pass


class MyUnregisteredTarget(UnregisteredTarget):
    pass


class MyFoldError(FoldError):
    pass


class Falsy(Exception):
    """an exception object that is falsy (a collection-like error with no entries)"""
    def __len__(self):
        return 0


class FalsyBool(Exception):
    def __bool__(self):
        return False


class GFalsy(GlomError):
    def __len__(self):
        return 0


class ReadOnlyArgs(Exception):
    """rebuildable from its args, but attribute assignment on instances is restricted"""
    def __init__(self, code, msg):
        Exception.__init__(self)
        self._args = (code, msg)

    args = property(lambda self: self._args)


class Guarded(Exception):
    def __init__(self, msg):
        Exception.__init__(self, msg)
        object.__setattr__(self, 'sealed', True)

    def __setattr__(self, name, value):
        if getattr(self, 'sealed', False) and not name.startswith('__'):
            raise AttributeError('instances of Guarded are read-only')
        object.__setattr__(self, name, value)


class GGuarded(GlomError):
    def __init__(self, msg):
        GlomError.__init__(self, msg)
        object.__setattr__(self, 'sealed', True)

    def __setattr__(self, name, value):
        if getattr(self, 'sealed', False) and name in ('args', 'code'):
            raise AttributeError('instances of GGuarded are read-only')
        object.__setattr__(self, name, value)


class NoSubclass(Exception):
    """refuses to be subclassed (a final exception class)"""
    def __init_subclass__(cls, **kw):
        raise RuntimeError('NoSubclass is final')


CATALOGUE = {
    'ValueError': lambda: ValueError('v'),
    'KeyError': lambda: KeyError('k'),
    'KeyError-noargs': lambda: KeyError(),
    'IndexError': lambda: IndexError(1),
    'TypeError': lambda: TypeError('t'),
    'AttributeError': lambda: AttributeError('a'),
    'OSError-2': lambda: OSError(2, 'No such file'),
    'UnicodeDecodeError': lambda: UnicodeDecodeError('utf8', b'x', 0, 1, 'bad'),
    'StopIteration': lambda: StopIteration(),
    'ZeroDivisionError': lambda: ZeroDivisionError('z'),
    'RuntimeError-noargs': lambda: RuntimeError(),
    'LookupError': lambda: LookupError('l'),
    'AssertionError': lambda: AssertionError('a', 2),
    'NotImplementedError': lambda: NotImplementedError(),
    'OverflowError': lambda: OverflowError(34, 'Numerical result out of range'),
    'ArithmeticSub': lambda: ArithmeticSub('precision lost'),
    'FloatingPointError': lambda: FloatingPointError('fp'),
    'Plain': lambda: Plain('p'),
    'WithAttrs': lambda: WithAttrs('w'),
    'TwoArg': lambda: TwoArg('a', 'b'),
    'NonRebuildable': lambda: NonRebuildable('a', 'b'),
    'KwOnly': lambda: KwOnly(code=3),
    'ArityChange': lambda: ArityChange(),
    'MsgPrefix': lambda: MsgPrefix('m'),
    'Slotted': lambda: Slotted('s'),
    'GPlain': lambda: GPlain('gp'),
    'GTwoArg': lambda: GTwoArg('a', 'b'),
    'GNonRebuildable': lambda: GNonRebuildable('a', 'b'),
    'GKwOnly': lambda: GKwOnly(code=3),
    'GArityChange': lambda: GArityChange(),
    'GMsgPrefix': lambda: GMsgPrefix('m'),
    'GMultiple': lambda: GMultiple('gm'),
    'glom-GlomError': lambda: GlomError('plain glom error'),
    'glom-PathAccessError': lambda: PathAccessError(KeyError('x'), Path('a'), 0),
    'glom-MatchError': lambda: MatchError('fmt {0}', 1),
    'glom-TypeMatchError': lambda: TypeMatchError(int, str),
    'glom-UnregisteredTarget': lambda: UnregisteredTarget('get', int, {}, None),
    'glom-BadSpec': lambda: BadSpec('bad'),
    'glom-FoldError': lambda: FoldError('f'),
    'glom-CheckError': lambda: CheckError(['m'], Check(), []),
    'glom-CoalesceError': lambda: CoalesceError(Coalesce('a'), [], None),
    'glom-PathAssignError': lambda: PathAssignError(ValueError('v'), Path('a'), 'b'),
    'KeyboardInterrupt': lambda: KeyboardInterrupt(),
    'SystemExit': lambda: SystemExit(3),
    'GeneratorExit': lambda: GeneratorExit(),
    'MyBase': lambda: MyBase('b'),
    'MyPathAccessError': lambda: MyPathAccessError(KeyError('x'), Path('a'), 0),
    'MyMatchError': lambda: MyMatchError('fmt {0}', 1),
    'MyTypeMatchError': lambda: MyTypeMatchError(int, str),
    'MyCheckError': lambda: MyCheckError(['m'], Check(), []),
    'MyCoalesceError': lambda: MyCoalesceError(Coalesce('a'), [], None),
    'MyUnregisteredTarget': lambda: MyUnregisteredTarget('get', int, {}, None),
    'MyFoldError': lambda: MyFoldError('f'),
    'Falsy': lambda: Falsy('f'),
    'FalsyBool': lambda: FalsyBool('f'),
    'GFalsy': lambda: GFalsy('gf'),
    'ReadOnlyArgs': lambda: ReadOnlyArgs(503, 'busy'),
    'Guarded': lambda: Guarded('g'),
    'GGuarded': lambda: GGuarded('gg'),
    'NoSubclass': lambda: NoSubclass('final'),
}
QUICK_SHAPES = ['OverflowError', 'ArithmeticSub', 'ZeroDivisionError', 'TypeError', 'ValueError', 'KeyError', 'KeyError-noargs', 'OSError-2', 'UnicodeDecodeError', 'StopIteration', 'WithAttrs', 'TwoArg',
                'NonRebuildable', 'KwOnly', 'ArityChange', 'MsgPrefix', 'Slotted', 'GPlain', 'GTwoArg', 'GNonRebuildable', 'GKwOnly',
                'GArityChange', 'GMsgPrefix', 'GMultiple', 'glom-PathAccessError', 'glom-MatchError', 'glom-TypeMatchError',
                'glom-UnregisteredTarget', 'glom-CheckError', 'glom-CoalesceError', 'KeyboardInterrupt', 'SystemExit', 'MyBase',
                'Falsy', 'FalsyBool', 'GFalsy', 'ReadOnlyArgs', 'Guarded', 'GGuarded', 'NoSubclass',
                'MyPathAccessError', 'MyMatchError', 'MyTypeMatchError', 'MyCheckError', 'MyCoalesceError', 'MyUnregisteredTarget', 'MyFoldError']


# ---------------------------------------------------------------------------
# injector

class Injector:
    def __init__(self, fire_at=None, exc=None, second=None):
        self.n = 0
        self.fire_at = fire_at if isinstance(fire_at, (list, tuple)) else ([fire_at] if fire_at is not None else [])
        self.excs = [exc, second]
        self.raised = []
        self.sites = []

    def hit(self, site):
        idx = self.n
        self.n += 1
        self.sites.append(site)
        if idx in self.fire_at:
            e = self.excs[self.fire_at.index(idx)]
            self.raised.append((site, e))
            raise e


class Fn:
    """user callable that is a fault site; behaves like `impl` otherwise"""
    def __init__(self, inj, site, impl):
        self.inj, self.site, self.impl = inj, site, impl
        self.__name__ = site

    def __call__(self, *a, **kw):
        self.inj.hit(self.site)
        return self.impl(*a, **kw)

    def __repr__(self):
        return 'fn<%s>' % self.site


class RaisingGetitem(dict):
    __slots__ = ('inj',)

    def __getitem__(self, k):
        self.inj.hit('target.__getitem__')
        return dict.__getitem__(self, k)


class RaisingAttr:
    def __init__(self, inj):
        object.__setattr__(self, '_inj', inj)
        object.__setattr__(self, 'v', 5)

    def __getattr__(self, name):
        if name.startswith('__'):
            raise AttributeError(name)
        object.__getattribute__(self, '_inj').hit('target.__getattr__')
        return 7


class RaisingOperand:
    """a number-like target whose arithmetic raises the injected exception"""
    def __init__(self, inj):
        self._inj = inj

    def _op(self, other):
        self._inj.hit('target.__add__')
        return 1
    __add__ = __mul__ = __truediv__ = __pow__ = __mod__ = _op


class RaisingCmp:
    """a target whose comparisons raise the injected exception (an M comparison calls them: whatever they raise is theirs)"""
    def __init__(self, inj):
        self._inj = inj

    def _cmp(self, other):
        self._inj.hit('target.__gt__')
        return True
    __gt__ = __lt__ = __ge__ = __le__ = _cmp


class RaisingIter:
    def __init__(self, inj, when):
        self.inj, self.when = inj, when

    def __iter__(self):
        if self.when == 'iter':
            self.inj.hit('target.__iter__')
        return self._gen()

    def _gen(self):
        for i in (1, 2):
            if self.when == 'next':
                self.inj.hit('target.__next__')
            yield i


def mk_raising_getitem(inj):
    d = RaisingGetitem(a=1)
    d.inj = inj
    return d


# kind: 'pass' | 'PAE' | 'Match' | 'Check' | 'TypeError' | 'Assign' | 'Delete'
def skeletons():
    S_ = {}

    def sk(name, kind, build):
        S_[name] = (kind, build)
    ident = lambda x: x
    sk('auto-callable', 'pass', lambda inj: ({'a': 1}, Fn(inj, 'callable', ident), glom))
    sk('auto-callable-in-dict', 'pass', lambda inj: ({'a': 1}, {'x': 'a', 'y': Fn(inj, 'callable', ident)}, glom))
    sk('auto-callable-in-list', 'pass', lambda inj: ([1, 2], [Fn(inj, 'callable', ident)], glom))
    sk('auto-callable-depth3', 'pass', lambda inj: ({'a': [1, 2]}, ('a', [{'k': (T, Fn(inj, 'callable', ident))}]), glom))
    # callables inside Fill-mode and argument-mode containers (every container type the two modes rebuild)
    sk('fill-tuple-callable', 'pass', lambda inj: ({'a': 1}, Fill((Fn(inj, 'callable', ident), T['a'])), glom))
    sk('fill-list-callable', 'pass', lambda inj: ({'a': 1}, Fill([T['a'], Fn(inj, 'callable', ident)]), glom))
    sk('fill-set-callable', 'pass', lambda inj: (3, Fill({Fn(inj, 'callable', ident)}), glom))
    sk('fill-frozenset-callable', 'pass', lambda inj: (3, Fill(frozenset([Fn(inj, 'callable', ident)])), glom))
    sk('fill-dict-callable', 'pass', lambda inj: ({'a': 1}, Fill({'k': Fn(inj, 'callable', ident)}), glom))
    sk('fill-nested-callable', 'pass', lambda inj: ({'a': 1}, Fill({'k': [(Fn(inj, 'callable', ident),)]}), glom))
    sk('arg-tuple-spec', 'pass', lambda inj: (3, Call(ident, args=((Spec(Fn(inj, 'argspec', ident)), 1),)), glom))
    sk('arg-set-spec', 'pass', lambda inj: (3, Call(ident, args=({Spec(Fn(inj, 'argspec', ident))},)), glom))
    sk('t-call', 'pass', lambda inj: ({'f': Fn(inj, 'callee', lambda: 1)}, T['f'](), glom))
    sk('t-call-arg', 'pass', lambda inj: ({'f': (lambda x: x), 'g': Fn(inj, 'callee', lambda: 2)}, T['f'](T['g']()), glom))
    sk('call-func', 'pass', lambda inj: (3, Call(Fn(inj, 'func', lambda x: x), args=(T,)), glom))
    sk('invoke-func', 'pass', lambda inj: (3, Invoke(Fn(inj, 'func', lambda x, k=None: x)).specs(T).constants(k=1), glom))
    sk('invoke-spec-arg', 'pass', lambda inj: (3, Invoke(ident).specs(Fn(inj, 'argspec', ident)), glom))
    # below a back-reference of a recursive Ref (the fault happens at recursion depth 1 and 2, not at depth 0)
    sk('ref-recursion-callable', 'pass', lambda inj: ({'a': 0, 'kids': [{'a': 1, 'kids': [{'a': 2, 'kids': []}]}]},
                                                      Ref('r', {'k': ('kids', [Ref('r')]), 'v': ('a', Fn(inj, 'leaf', ident))}), glom))
    def deep_raising(inj):
        d = mk_raising_getitem(inj)
        dict.__setitem__(d, 'kids', [])
        return {'a': 0, 'kids': [{'a': 0, 'kids': [d]}]}
    sk('ref-recursion-getitem', 'PAE', lambda inj: (deep_raising(inj), Ref('r', {'v': 'a', 'k': ('kids', [Ref('r')])}), glom))
    sk('m-comparison-operand', 'pass', lambda inj: (RaisingCmp(inj), M > 0, glom))
    sk('m-comparison-in-match-dict', 'pass', lambda inj: ({'k': RaisingCmp(inj)}, Match({'k': M > 0}), glom))
    sk('coalesce-skip-predicate', 'coalesce-skip', lambda inj: ({'a': 1}, Coalesce('a', 'a', skip=Fn(inj, 'skip', lambda v: False)), glom))
    sk('coalesce-default-factory', 'pass', lambda inj: ({'a': 1}, Coalesce('zz', default_factory=Fn(inj, 'factory', lambda: 0)), glom))
    sk('check-validator', 'Check', lambda inj: (3, Check(validate=Fn(inj, 'validator', lambda v: True)), glom))
    sk('match-predicate', 'Match', lambda inj: (3, Match(Fn(inj, 'predicate', lambda v: True)), glom))
    sk('match-predicate-in-dict', 'Match', lambda inj: ({'k': 3}, Match({'k': Fn(inj, 'predicate', lambda v: True)}), glom))
    sk('fold-op', 'pass', lambda inj: ([1, 2], Fold(T, init=int, op=Fn(inj, 'op', lambda a, b: a + b)), glom))
    sk('fold-init', 'pass', lambda inj: ([1, 2], Fold(T, init=Fn(inj, 'init', int)), glom))
    sk('merge-op', 'pass', lambda inj: ([{'a': 1}], Merge(op=Fn(inj, 'op', lambda a, b: a.update(b))), glom))
    sk('group-key-fn', 'pass', lambda inj: ([1, 2, 3], Group({Fn(inj, 'key', lambda x: x % 2): [T]}), glom))
    sk('group-leaf-fn', 'pass', lambda inj: ([1, 2], Group([Fn(inj, 'leaf', ident)]), glom))
    sk('iter-map-inside', 'pass', lambda inj: ([1, 2], Iter().map(Fn(inj, 'map', ident)).all(), glom))
    sk('iter-filter-inside', 'pass', lambda inj: ([1, 2], (Iter().filter(Fn(inj, 'filter', lambda x: True)), list), glom))
    sk('assign-missing-factory', 'pass', lambda inj: ({}, Assign('a.b.c', 1, missing=Fn(inj, 'missing', dict)), glom))
    sk('path-getitem', 'PAE', lambda inj: (mk_raising_getitem(inj), 'a', glom))
    sk('path-getattr', 'PAE', lambda inj: (RaisingAttr(inj), 'zz', glom))
    sk('path-getitem-nested', 'PAE', lambda inj: ({'o': mk_raising_getitem(inj)}, {'r': 'o.a'}, glom))
    sk('t-getitem', 'T[', lambda inj: (mk_raising_getitem(inj), T['a'], glom))
    sk('t-getattr', 'T.', lambda inj: (RaisingAttr(inj), T.zz, glom))
    sk('t-arithmetic-add', 'T+', lambda inj: (RaisingOperand(inj), T + 1, glom))
    sk('t-arithmetic-pow-nested', 'T+', lambda inj: ({'n': RaisingOperand(inj)}, {'r': T['n'] ** 2}, glom))
    sk('list-iter', 'TypeError', lambda inj: (RaisingIter(inj, 'iter'), [T], glom))
    sk('list-next', 'pass', lambda inj: (RaisingIter(inj, 'next'), [T], glom))

    def with_glommer(op):
        def build(inj):
            g = Glommer()

            class Cls:
                x = 1
            handlers = {'get': Fn(inj, 'get-handler', lambda o, k: 1), 'iterate': Fn(inj, 'iterate-handler', lambda o: iter([1])),
                        'assign': Fn(inj, 'assign-handler', lambda o, k, v: None), 'delete': Fn(inj, 'delete-handler', lambda o, k: None)}
            g.register(Cls, **{op: handlers[op]})
            spec = {'get': 'x', 'iterate': [T], 'assign': Assign('x', 2), 'delete': Delete('x')}[op]
            return Cls(), spec, g.glom
        return build
    sk('registered-get', 'PAE', with_glommer('get'))
    sk('registered-iterate', 'TypeError', with_glommer('iterate'))
    sk('registered-assign', 'Assign', with_glommer('assign'))
    sk('registered-delete', 'Delete', with_glommer('delete'))
    return S_


SKELETONS = None


def get_skeletons():
    global SKELETONS
    if SKELETONS is None:
        SKELETONS = skeletons()
    return SKELETONS


KWARGS = ['none', 'default', 'skip-hit', 'skip-miss', 'default+skip-hit', 'default+skip-miss', 'debug', 'debug+default', 'skip-empty', 'default+skip-empty']
DEFAULT = ['the default object']


class Unrelated(Exception):
    pass


def mk_kwargs(name, O):
    kw = {}
    if 'default' in name:
        kw['default'] = DEFAULT
    if 'skip-hit' in name:
        kw['skip_exc'] = type(O) if isinstance(O, Exception) else (Exception, type(O))
    if 'skip-miss' in name:
        kw['skip_exc'] = (Unrelated, FloatingPointError)
    if 'skip-empty' in name:
        kw['skip_exc'] = ()
    if 'debug' in name:
        kw['glom_debug'] = True
    return kw


def rebuildable(O):
    """can the class be rebuilt from the args into an object that can carry the trace?  (an instance that rejects every
    attribute assignment cannot be annotated by anybody: for such classes only class and args have to survive)"""
    try:
        twin = type(O)(*O.args)
        twin._verif_probe_attribute = 1
        if not isinstance(O, GlomError):
            type('Probe', (type(O), GlomError), {})     # an object that is both needs a common subclass: impossible for final classes
        return True
    except Exception:
        return False


CONVERTED = {'PAE': PathAccessError, 'Match': MatchError, 'Check': CheckError, 'TypeError': TypeError,
             'Assign': PathAssignError, 'Delete': PathDeleteError}


def converts(kind, O):
    """does glom convert O at this site into its own documented error?"""
    if not isinstance(O, Exception):
        return False
    if kind in ('PAE', 'Match', 'Check', 'TypeError', 'Assign', 'Delete'):
        return True
    if kind == 'T[':
        return isinstance(O, (KeyError, IndexError, TypeError))
    if kind == 'T.':
        return isinstance(O, AttributeError)
    if kind == 'T+':
        return isinstance(O, (TypeError, ZeroDivisionError))      # what Python raises for unsupported operands / division by zero; nothing else
    return False


def absorbed_at_site(kind, O):
    """Coalesce evaluates its skip predicate inside the branch: an exception matching skip_exc (GlomError) moves on to the next sub-spec"""
    return kind == 'coalesce-skip' and isinstance(O, GlomError)


ITERATOR_SKELETONS = ('iter-map-inside', 'iter-filter-inside', 'list-next')


def count_sites(name):
    kind, build = get_skeletons()[name]
    inj = Injector()
    target, spec, caller = build(inj)
    caller(target, spec)
    return inj.n, list(inj.sites)


def judge(kind, O, kwname, outcome, where):
    """outcome = ('returned', value) | ('raised', R)"""
    kw = mk_kwargs(kwname, O)
    conv = converts(kind, O)
    eff_class = (CONVERTED['PAE'] if kind in ('T[', 'T.', 'T+') else CONVERTED[kind]) if conv else None
    origin = O if not conv else None
    # what is matched against skip_exc at the origin
    if 'skip_exc' in kw:
        skip = kw['skip_exc']
    elif 'default' in kw:
        skip = GlomError
    else:
        skip = ()
    if conv:
        hit = bool(skip) and issubclass(eff_class, skip if isinstance(skip, tuple) else (skip,)) or \
            (kind == 'TypeError' and bool(skip) and issubclass(TypeError, skip if isinstance(skip, tuple) else (skip,)))
    else:
        hit = bool(skip) and isinstance(O, skip)
    if not isinstance(O, Exception):
        hit = hit and 'skip_exc' in kw and not conv   # BaseExceptions only when named explicitly
    if hit:
        want_default = DEFAULT if 'default' in kw else None
        if outcome[0] != 'returned' or outcome[1] is not want_default:
            return 'expected the default object %r to be returned (skip_exc matches at origin), observed %r' % (want_default, outcome)
        return None
    if outcome[0] != 'raised':
        return 'expected the exception to propagate, observed return value %r' % (outcome[1],)
    Rr = outcome[1]
    if conv:
        if not isinstance(Rr, eff_class):
            return 'expected the documented %s, observed %r' % (eff_class.__name__, Rr)
        if not isinstance(Rr, GlomError) and not kw.get('glom_debug'):
            return 'a failure detected by glom must be a GlomError, observed %r' % (type(Rr).__mro__,)
        if kind in ('PAE', 'T[', 'T.', 'T+', 'Assign', 'Delete') and getattr(Rr, 'exc', None) is not O:
            return 'the documented error must carry the original exception object, .exc is %r' % (getattr(Rr, 'exc', None),)
        return None
    if not isinstance(O, Exception):
        if Rr is not O:
            return 'a BaseException must propagate as the original object, observed %r' % (Rr,)
        return None
    if kw.get('glom_debug'):
        if Rr is not O:
            return 'glom_debug=True must propagate the original object, observed %r' % (Rr,)
        return None
    if not isinstance(Rr, type(O)):
        return 'escaping %r is not an instance of the original class %s' % (Rr, type(O).__name__)
    if Rr.args != O.args:
        return 'args changed: %r != original %r' % (Rr.args, O.args)
    if rebuildable(O) and not isinstance(Rr, GlomError):
        return '%s can be rebuilt from its args, so the escaping object must also be a GlomError: %r' % (type(O).__name__, type(Rr).__mro__)
    return None


def run_case(case):
    name, site, shape, kwname = case
    kind, build = get_skeletons()[name]
    O = CATALOGUE[shape]()
    inj = Injector(site, O)
    target, spec, caller = build(inj)
    kw = mk_kwargs(kwname, O)
    try:
        outcome = ('returned', caller(target, spec, **kw))
    except BaseException as e:
        outcome = ('raised', e)
    if not inj.raised:
        return R({'expected': 'fault site %d reached' % site, 'observed': 'never reached (sites %r)' % (inj.sites,), 'skeleton': name}, 'unreached')
    where = {'skeleton': name, 'site': inj.raised[0][0], 'spec': repr(spec)[:300], 'exception': shape, 'kwargs': kwname}
    if absorbed_at_site(kind, O):
        if outcome != ('returned', 1):
            return R({'expected': 'the next Coalesce sub-spec is used (value 1)', 'observed': repr(outcome), **where}, 'absorbed')
        return R(None, 'absorbed', steps=inj.n, tags={kind, kwname, shape})
    problem = judge('pass' if kind == 'coalesce-skip' else kind, O, kwname, outcome, where)
    oc = '%s:%s' % (kind, outcome[0])
    if problem:
        return R({'expected': 'see observed', 'observed': problem, **where}, oc, sig='%s:%s' % (shape, kind))
    return R(None, oc, nontrivial=True, steps=inj.n, tags={kind, kwname, shape})


def gen_cases(tier):
    shapes = list(CATALOGUE)
    cases = []
    for name in get_skeletons():
        n, sites = count_sites(name)
        for site in range(n):
            for shape in shapes:
                if shape == 'StopIteration' and name in ITERATOR_SKELETONS:
                    continue   # Python's iterator protocol gives StopIteration inside an iterator its own meaning
                for kwname in KWARGS:
                    cases.append([name, site, shape, kwname])
    return cases


# ---------------------------------------------------------------------------
# bound 2: first fault absorbed, second escapes

def absorbers():
    A_ = {}
    ident = lambda x: x
    A_['coalesce'] = lambda inj: ({'a': 1}, Coalesce(Fn(inj, 'first', ident), Fn(inj, 'second', ident)), 'glomerror')
    A_['coalesce-skip-exc'] = lambda inj: ({'a': 1}, Coalesce(Fn(inj, 'first', ident), Fn(inj, 'second', ident), skip_exc=Exception), 'any')
    A_['or'] = lambda inj: (3, Or(Fn(inj, 'first', ident), Fn(inj, 'second', ident)), 'glomerror')
    A_['match-default'] = lambda inj: (3, (Match(Auto(Fn(inj, 'first', ident)), default=0), Fn(inj, 'second', ident)), 'glomerror')
    A_['switch'] = lambda inj: (3, Switch([(Auto(Fn(inj, 'first', ident)), Val(1)), (M, Auto(Fn(inj, 'second', ident)))]), 'glomerror')
    A_['coalesce-nested'] = lambda inj: ({'a': [1]}, {'r': ('a', [Coalesce(Fn(inj, 'first', ident), Fn(inj, 'second', ident))])}, 'glomerror')
    return A_


def run_bound2(case):
    name, shape1, shape2, kwname = case
    build = absorbers()[name]
    O1, O2 = CATALOGUE[shape1](), CATALOGUE[shape2]()
    inj = Injector([0, 1], O1, O2)
    target, spec, absorbs = build(inj)
    kw = mk_kwargs(kwname, O2)
    try:
        outcome = ('returned', glom(target, spec, **kw))
    except BaseException as e:
        outcome = ('raised', e)
    absorbed = isinstance(O1, Exception) and (absorbs == 'any' or isinstance(O1, GlomError))
    where = {'absorber': name, 'spec': repr(spec)[:300], 'first': shape1, 'second': shape2, 'kwargs': kwname}
    if not absorbed:
        # the first fault escapes: same rules as bound 1 for O1, the second site is never reached
        if len(inj.raised) != 1:
            return R({'expected': 'only the first fault fires (it is not absorbed)', 'observed': repr(inj.raised), **where}, 'first-escapes')
        problem = judge('pass', O1, kwname if 'skip-hit' not in kwname else 'none', outcome, where) if 'skip-hit' not in kwname else None
        if problem:
            return R({'expected': 'see observed', 'observed': problem, **where}, 'first-escapes')
        return R(None, 'first-escapes', steps=2, tags={name})
    if len(inj.raised) != 2:
        return R({'expected': 'first fault absorbed, second site reached', 'observed': repr(inj.raised), **where}, 'absorbed')
    second_absorbed = name == 'coalesce-skip-exc' and isinstance(O2, Exception)
    if second_absorbed:
        return R(None, 'both-absorbed', nontrivial=False)
    if isinstance(O2, GlomError) and name in ('coalesce', 'or', 'coalesce-nested'):
        return R(None, 'second-absorbed-too', nontrivial=False)   # CoalesceError / last-branch semantics: not a pass-through case
    problem = judge('pass', O2, kwname, outcome, where)
    if problem:
        return R({'expected': 'see observed', 'observed': problem, **where}, 'absorbed', sig='%s:pass' % shape2)
    return R(None, 'absorbed-then-escapes', steps=2, tags={name, kwname})


def gen_bound2(tier):
    firsts = ['glom-PathAccessError', 'GPlain', 'GKwOnly', 'glom-MatchError', 'ValueError', 'KeyboardInterrupt']
    seconds = QUICK_SHAPES if tier != 'quick' else ['ValueError', 'KeyError-noargs', 'NonRebuildable', 'KwOnly', 'MsgPrefix', 'GKwOnly',
                                                      'GMsgPrefix', 'glom-TypeMatchError', 'SystemExit', 'WithAttrs']
    return [[name, a, b, kw] for name in absorbers() for a in firsts for b in seconds for kw in KWARGS]


# ---------------------------------------------------------------------------
# failures detected by glom itself

class _Ambiguous:
    def __bool__(self):
        raise ValueError('the truth value of this answer is ambiguous')


def _pred_vague(x):
    return _Ambiguous()


def _pred_raises(x):
    raise LookupError('predicate failed')


def table():
    """(name, target, spec, documented class) - failures that glom itself detects"""
    from glom.grouping import Limit
    return [
        ('missing-path', {}, 'a.b', PathAccessError),
        ('missing-t-attr', {}, T.zz, PathAccessError),
        ('missing-key-in-item', {'b': 1}, 'a', PathAccessError),
        ('no-coalesce-alternative', {}, Coalesce('a', 'b'), CoalesceError),
        ('non-iterable-in-list-spec', 5, ['a'], UnregisteredTarget),
        ('bad-spec-type', {}, 3.5, TypeError),
        ('check', 3, Check(type=str), CheckError),
        ('match', 3, Match('a'), MatchError),
        ('match-type', 3, Match(str), TypeMatchError),
        ('m-comparison', 3, M > 5, MatchError),
        ('match-predicate-raises', 3, Match(_pred_raises), MatchError),
        ('match-predicate-answer-without-truth-value', 3, Match(_pred_vague), MatchError),
        ('switch-no-case', 3, Switch([(M > 5, Val(1))]), MatchError),
        ('fold-non-iterable', 5, Fold(T, init=int), FoldError),
        ('assign-missing-prefix', {}, Assign('a.b', 1), PathAccessError),
        ('assign-out-of-range', {'l': [1]}, Assign('l.5', 1), PathAssignError),
        ('assign-unregistered', {'t': (1,)}, Assign('t.0', 1), UnregisteredTarget),
        ('delete-missing-key', {'a': {}}, Delete('a.zz'), PathDeleteError),
        ('delete-missing-parent', {}, Delete('a.zz'), PathAccessError),
        ('a-without-destination', 1, A, BadSpec),
        ('group-bad-spec', [1], Group('x'), BadSpec),
        ('limit-outside-group', [1], Limit(1), BadSpec),
        ('scope-miss', 1, S['nope'], PathAccessError),
    ]


def ident(x):
    return x


# positions in which the failing spec is evaluated: (name, target builder, spec builder); none of them converts the error
CONTEXTS = [
    ('top-level', lambda t: t, lambda f: f),
    ('after-a-chain-step', lambda t: {'w': t}, lambda f: ('w', f)),
    ('after-two-chain-steps', lambda t: {'w': {'v': t}}, lambda f: ('w', 'v', f)),
    ('pipe-step', lambda t: {'w': t}, lambda f: Pipe('w', f)),
    ('dict-value', lambda t: t, lambda f: {'k': f}),
    ('list-item', lambda t: [t], lambda f: [f]),
    ('list-item-after-chain-step', lambda t: {'w': [t]}, lambda f: ('w', [f])),
    ('spec-wrapper', lambda t: t, lambda f: Spec(f)),
    ('auto-in-fill', lambda t: t, lambda f: Fill([Auto(f)])),
    ('iter-map-all', lambda t: [t], lambda f: Iter().map(f).all()),
    ('iter-map-all-after-chain-step', lambda t: {'w': [t]}, lambda f: ('w', Iter().map(f).all())),
    ('first-key', lambda t: [t], lambda f: Iter().first(key=f)),
    ('first-key-after-chain-step', lambda t: {'w': [t]}, lambda f: ('w', Iter().first(key=f))),
    ('call-argument', lambda t: t, lambda f: Call(ident, args=(Spec(f),))),
    ('invoke-specs', lambda t: t, lambda f: Invoke(ident).specs(f)),
    ('coalesce-then-no-default', lambda t: t, lambda f: Coalesce(f, skip_exc=KeyboardInterrupt)),
    ('and-child', lambda t: t, lambda f: Auto(And(T, f)) if False else And(f)),
    ('switch-value', lambda t: t, lambda f: Switch([(T, f)]) if False else Switch([(Val(1), f)])),
    ('callable-calling-glom', lambda t: t, lambda f: (lambda x: glom(x, f))),
]


def run_table(case):
    idx, cidx = case
    name, target, spec, cls = table()[idx]
    cname, wrap_t, wrap_s = CONTEXTS[cidx]
    import copy as _copy
    outs = []
    for kw in ({}, {'default': DEFAULT}, {'glom_debug': True}):
        try:
            res = G.glom(wrap_t(_copy.deepcopy(target)), wrap_s(spec), **kw)
            outs.append(('returned', res))
        except Exception as e:
            outs.append(('raised', e))
    plain, dflt, dbg = outs
    where = {'failure': name, 'context': cname, 'spec': repr(wrap_s(spec))[:200]}
    if plain[0] != 'raised' or not isinstance(plain[1], cls) or not isinstance(plain[1], GlomError):
        return R({'expected': '%s (a GlomError)' % cls.__name__, 'observed': repr(plain), **where}, name)
    if issubclass(cls, GlomError) and cname != 'callable-calling-glom':
        if dflt[0] != 'returned' or dflt[1] is not DEFAULT:
            return R({'expected': 'default returned for a GlomError', 'observed': repr(dflt), **where}, name)
    if dbg[0] != 'raised' or not isinstance(dbg[1], cls):
        return R({'expected': '%s with glom_debug' % cls.__name__, 'observed': repr(dbg), **where}, name)
    return R(None, name, steps=3, tags={cname})


def _call_with(fn, kw):
    if not kw:
        return fn()
    real = G.glom
    import glom.core as core

    def patched(target, spec, **kwargs):
        kwargs.update(kw)
        return real(target, spec, **kwargs)
    g = fn.__globals__
    old = g['glom']
    g['glom'] = patched
    try:
        return fn()
    finally:
        g['glom'] = old


# ---------------------------------------------------------------------------
# histories: several exception classes with the same __name__ pass through glom() in one process

def dup_classes():
    def mk(base, mod):
        cls = type('ConnectionError', (base,), {'__module__': mod})
        return cls
    return [('builtin', ConnectionError), ('user-exc', mk(Exception, 'libA')), ('user-valueerror', mk(ValueError, 'libB')),
            ('user-glomerror', mk(GlomError, 'libC')), ('user-oserror-sub', mk(OSError, 'libD'))]


def run_dup(case):
    order, kwname = case
    classes = dict(dup_classes())
    for step, name in enumerate(order):
        cls = classes[name]
        O = cls('m%d' % step)

        def raiser(t, O=O):
            raise O
        kw = mk_kwargs(kwname, O)
        try:
            outcome = ('returned', glom({'a': 1}, ('a', raiser), **kw))
        except BaseException as e:
            outcome = ('raised', e)
        problem = judge('pass', O, kwname, outcome, {})
        if problem:
            return R({'expected': 'see observed', 'observed': problem, 'history': order[:step + 1], 'class': '%s.%s' % (cls.__module__, cls.__name__),
                      'kwargs': kwname}, 'dup')
    return R(None, 'ok', nontrivial=len(order) > 1, steps=len(order), tags={kwname})


def gen_dup(tier):
    names = [n for n, _ in dup_classes()]
    cases = []
    for n in (1, 2, 3):
        for order in itertools.permutations(names, n):
            for kwname in ('none', 'default', 'skip-hit', 'debug'):
                cases.append([list(order), kwname])
    return cases


def subs(tier, only=None):
    from ..engine import fast_tracebacks
    fast_tracebacks()
    out = [
        Sub('same-name-classes', gen_dup(tier), run_dup,
            rule='case = (ordered history of <= 3 exception classes that share one __name__, kwargs): each is raised through glom() in turn in ONE process '
                 'and must obey the pass-through rules (a wrapper keyed by class name would confuse them)', min_nontrivial=100, min_outcomes=1),
        Sub('one-fault', gen_cases(tier), run_case,
            rule='case = (skeleton, fault site index, exception shape, kwargs setting): every execution with exactly one deviation from the '
                 'fault-free run; sites are learned by a counting run of each skeleton',
            min_nontrivial=5000, min_outcomes=4, required_tags=KWARGS + ['pass', 'coalesce-skip', 'PAE', 'Match', 'Check', 'TypeError', 'Assign', 'Delete', 'T[', 'T.']),
        Sub('two-faults', gen_bound2(tier), run_bound2,
            rule='case = (absorbing construct, first exception shape, second exception shape, kwargs): the first fault is absorbed (when its class is '
                 'absorbed by the construct), the second must obey the pass-through rules',
            min_nontrivial=500, min_outcomes=2),
        Sub('glom-detected', [[i, c] for i in range(len(table())) for c in range(len(CONTEXTS))], run_table,
            rule='case = (one of 21 failures that glom detects itself, one of 19 positions in which the failing spec is evaluated: chain step, dict value, '
                 'list item, Iter().map, key of first(), call argument, callable calling glom, ...): the documented GlomError subtype leaves glom(), '
                 'default= is honoured, glom_debug keeps the class',
            min_nontrivial=300, min_outcomes=15, required_tags=['top-level', 'first-key-after-chain-step', 'iter-map-all', 'call-argument']),
    ]
    return [s for s in out if only in (None, s.name)]
