"""C13 - Handlers are chosen by nearest registered type, immediately and in isolation.

Explicit-state search over registration histories.  A state is the sequence of register()
events applied to three registries (a default Glommer(), a bare Glommer(register_default_
types=False), and - in a forked child per history, so that the process-wide default registry
is pristine - the module-level glom).  Events: register(cls, handlers for a subset of the five
operations, exact in {False, True}) for the classes of a hierarchy family, with handlers
tagged by class; after every event ALL (operation, class) pairs are observed through the
public API on ALL registries.  Every history is run twice: observing after every event (warm
memo) and only at the end (cold memo).
Invariants: the observed behaviour is in the admissible set of a registry model that
implements "nearest registered type" (real ancestors before duck types, any minimal element
among incomparable candidates); warm == cold; an event on one registry leaves the others
unchanged; a default Glommer behaves like module-level glom on a pool of (target, spec) pairs.
"""
import itertools
import json
import os
import pickle
from collections import OrderedDict

import glom as G
from glom import glom, Glommer, T, Path, assign, delete, Assign, Delete, Coalesce, GlomError, UnregisteredTarget, PathAccessError, Fold

from ..engine import R, Sub

PROPERTY = 'C13'
ASSUMPTIONS = [
    'reading: exact type registered for the operation -> its handler (explicit, else auto-discovered at registration); otherwise a minimal '
    'non-exact registered type of which the object is an instance; real ancestors (in the MRO, other than object) take precedence over '
    'glom\'s virtual duck types; among several real ancestors the first one in the MRO of the object\'s type is the nearest',
    'the module-level registry is exercised in a forked child per history; histories on it are shorter',
]

OPS = ['get', 'iterate', 'keys', 'assign', 'delete']
AUTO_OPS = ['get', 'iterate', 'assign', 'delete']

# ---------------------------------------------------------------------------
# hierarchy families (classes are created once; registrations never mutate them)

class A:
    def __init__(self):
        self.x = 'attr-x'


class B(A):
    pass


class C(B):
    pass


class D(C):
    pass


class DA:
    def __init__(self):
        self.x = 'attr-x'


class DB(DA):
    pass


class DC(DA):
    pass


class DD(DB, DC):
    pass


class XB:
    def __init__(self):
        self.x = 'attr-x'


class XC:
    pass


class XD(XC, XB):
    pass


class XE(XD):
    pass


class Audited:
    """a plain mixin that gets registered; the builtin container comes FIRST in the MRO of SettingsD / RowsL"""
    pass


class SettingsD(dict, Audited):
    def __init__(self):
        dict.__init__(self, x='item-x')


class AuditedD(Audited, dict):
    def __init__(self):
        dict.__init__(self, x='item-x')


class RowsL(list, Audited):
    __slots__ = ()

    def __init__(self):
        list.__init__(self, ['e0', 'e1'])


class TagStr(str):
    """a scalar subclass that gets registered (its handlers must be used in every position, wildcards included)"""
    __slots__ = ()


class Mix:
    pass


class MA:
    def __init__(self):
        self.x = 'attr-x'


class MB(MA, Mix):
    pass


class It:
    def __init__(self):
        self.x = 'attr-x'

    def __iter__(self):
        return iter(['it0', 'it1'])


class It2(It):
    pass


class Sl:
    __slots__ = ('x',)

    def __init__(self):
        self.x = 'attr-x'


class Sl2(Sl):
    __slots__ = ()


class MyDict(dict):
    def __init__(self):
        dict.__init__(self, x='item-x')
        self.x = 'attr-x'


class MyDictS(dict):
    __slots__ = ()

    def __init__(self):
        dict.__init__(self, x='item-x')


class MyList(list):
    def __init__(self):
        list.__init__(self, ['e0', 'e1'])
        self.x = 'attr-x'


class MyTuple(tuple):
    def __new__(cls):
        return tuple.__new__(cls, ('e0', 'e1'))


class MyOD(OrderedDict):
    def __init__(self):
        OrderedDict.__init__(self, x='item-x')


FAMILIES = {
    'chain': [A, B, C, D],
    'diamond': [DA, DB, DC, DD],
    'diamond-bottom': [XB, XC, XD, XE],
    'mixin': [Mix, MA, MB],
    'iterable': [It, It2],
    'slots': [Sl, Sl2],
    'dictsub': [MyDict, MyDictS, MyOD],
    'seqsub': [MyList, MyTuple],
    'container-first-mixin': [Audited, SettingsD, AuditedD, RowsL],
    'scalar-subclass': [TagStr],
}
CLS = {c.__name__: c for fam in FAMILIES.values() for c in fam}
REGISTRABLE = {   # which classes of a family get registered (instances of ALL classes are observed)
    'chain': ['A', 'B', 'C'], 'diamond': ['DA', 'DB', 'DC'], 'diamond-bottom': ['XD', 'XB', 'XC'], 'mixin': ['Mix', 'MA'], 'iterable': ['It'], 'slots': ['Sl'],
    'dictsub': ['MyDict', 'MyDictS'], 'seqsub': ['MyList'], 'container-first-mixin': ['Audited'], 'scalar-subclass': ['TagStr'],
}
OPSETS = {'all': OPS, 'get': ['get'], 'itk': ['iterate', 'keys'], 'mut': ['assign', 'delete'], 'none': []}   # 'none': a bare register(X) / register(X, exact=..)
# registrations that switch an operation OFF for a type (handler False)
OFFSETS = {'no-iterate': ['iterate'], 'no-assign': ['assign', 'delete'], 'no-get': ['get']}


def ops_of(opset, cname):
    """operation -> handler tag (the class name) or False"""
    if opset in OFFSETS:
        return {op: False for op in OFFSETS[opset]}
    return {op: cname for op in OPSETS[opset]}


HLOG = []


def mk_handler(op, tag):
    if op == 'get':
        return lambda o, k: 'H:get:%s' % tag
    if op == 'iterate':
        return lambda o: iter(['H:iterate:%s' % tag])
    if op == 'keys':
        return lambda o: ['K:%s' % tag]
    if op == 'assign':
        return lambda o, k, v: HLOG.append('H:assign:%s' % tag)
    if op == 'delete':
        return lambda o, k: HLOG.append('H:delete:%s' % tag)


# ---------------------------------------------------------------------------
# observation through the public API

SPECS = {}


def fresh_specs():
    """ONE spec object per operation for a whole history: it is used with every registry, before and after every registration"""
    SPECS.clear()
    SPECS.update({'get': Path('x'), 'iterate': [T], 'keys': Path.from_text('*'), 'assign': Assign('y', 1), 'delete': Delete('x'),
                  'fold': Fold(T, init=list, op=_fold_op), 'get-nested': Path('w', 'x')})


def observe_one(gl, op, cname):
    """gl = callable like glom; fresh object per observation"""
    o = CLS[cname]()
    del HLOG[:]
    if not SPECS:
        fresh_specs()
    try:
        if op == 'get':
            return repr(gl(o, SPECS['get']))
        if op == 'iterate':
            return repr(gl(o, SPECS['iterate']))
        if op == 'keys':
            return repr(gl(o, SPECS['keys']))
        if op == 'assign':
            gl(o, SPECS['assign'])
            return 'log=%r y=%r' % (HLOG, probe(o, 'y'))
        if op == 'delete':
            gl(o, SPECS['delete'])
            return 'log=%r x=%r' % (HLOG, probe(o, 'x'))
        if op == 'assign-created':
            # the object is created by missing= during the call: filling it must use the SAME registry as everything else in the call
            made = []

            def mk():
                made.append(CLS[cname]())
                return made[-1]
            gl({}, Assign('new.y', 1, missing=mk))
            return 'log=%r y=%r' % (HLOG, probe(made[0], 'y'))
    except UnregisteredTarget:
        return 'UnregisteredTarget'
    except GlomError as e:
        return 'GlomError:' + type(e).__name__
    except Exception as e:
        return 'Exception:' + type(e).__name__


def probe(o, name):
    out = []
    try:
        if isinstance(o, dict) and name in o:
            out.append('item')
    except Exception:
        pass
    try:
        if name in getattr(o, '__dict__', {}) or (hasattr(type(o), '__slots__') and hasattr(o, name) and not isinstance(getattr(type(o), name, None), type(None))):
            out.append('attr')
    except Exception:
        pass
    return ','.join(out)


def _fold_op(acc, x):
    return acc + [x]


def observe_all(gl, family, created=True):
    out = {(op, c.__name__): observe_one(gl, op, c.__name__) for c in FAMILIES[family] for op in OPS + (['assign-created'] if created else [])}
    for c in FAMILIES[family]:
        # the same lookups reached another way: 'iterate' through a fold, 'get' as the SECOND segment of a path (directly after a dict / a list)
        o = c()
        del HLOG[:]
        try:
            out[('fold', c.__name__)] = repr(gl(o, SPECS['fold']))
        except UnregisteredTarget:
            out[('fold', c.__name__)] = 'UnregisteredTarget'
        except GlomError as e:
            out[('fold', c.__name__)] = 'GlomError:' + type(e).__name__
        except Exception as e:
            out[('fold', c.__name__)] = 'Exception:' + type(e).__name__
        if created:
            for holder, mk in (('get-in-dict', lambda o: {'w': o}), ('get-in-dictsub', lambda o: _Holder(w=o))):
                del HLOG[:]
                try:
                    out[(holder, c.__name__)] = repr(gl(mk(c()), SPECS['get-nested']))
                except UnregisteredTarget:
                    out[(holder, c.__name__)] = 'UnregisteredTarget'
                except GlomError as e:
                    out[(holder, c.__name__)] = 'GlomError:' + type(e).__name__
                except Exception as e:
                    out[(holder, c.__name__)] = 'Exception:' + type(e).__name__
    return out


class _Holder(dict):
    """an (unregistered) dict subclass that holds the observed object: the object comes directly after a dict instance in the path"""


# ---------------------------------------------------------------------------
# registry model

BUILTIN = [   # (name, isinstance test, is real class or virtual, {op: behaviour})
    ('object', lambda o: True, object, {'get': 'GETATTR', 'iterate': False, 'assign': 'SETATTR', 'delete': 'DELATTR'}),
    ('dict', lambda o: isinstance(o, dict), dict, {'get': 'GETITEM', 'iterate': 'ITER', 'keys': 'DICTKEYS', 'assign': 'SETITEM', 'delete': 'DELITEM'}),
    ('list', lambda o: isinstance(o, list), list, {'get': 'SEQGET', 'iterate': 'ITER', 'assign': 'SEQSET', 'delete': 'SEQDEL'}),
    ('tuple', lambda o: isinstance(o, tuple), tuple, {'get': 'SEQGET', 'iterate': 'ITER', 'assign': False, 'delete': False}),
    ('OrderedDict', lambda o: isinstance(o, OrderedDict), OrderedDict,
     {'get': 'GETITEM', 'iterate': 'ITER', 'keys': 'DICTKEYS', 'assign': 'SETITEM', 'delete': 'DELITEM'}),
    ('_AbstractIterable', lambda o: callable(getattr(type(o), '__iter__', None)) and type(o) not in (str, bytes), None,     # the exact types str / bytes only
     {'get': 'GETATTR', 'iterate': 'ITER', 'assign': 'SETATTR', 'delete': 'DELATTR'}),
    ('_ObjStyleKeys', lambda o: hasattr(o, '__dict__') and hasattr(o.__dict__, 'keys') and not isinstance(o, (list, tuple, set, frozenset)), None,
     {'get': 'GETATTR', 'iterate': False, 'keys': 'OBJKEYS', 'assign': 'SETATTR', 'delete': 'DELATTR'}),
]


def auto(op, cls):
    if op == 'get':
        return 'GETATTR'
    if op == 'iterate':
        return 'ITER' if callable(getattr(cls, '__iter__', None)) else False
    if op in ('assign', 'delete'):
        if issubclass(cls, (tuple, str, bytes, int, float, frozenset, set, type(None), bool, complex, range, slice, bytearray, memoryview)):
            return False
        dunder = '__setitem__' if op == 'assign' else '__delitem__'
        if callable(getattr(cls, dunder, None)):
            if callable(getattr(cls, 'index', None)):
                return 'SEQSET' if op == 'assign' else 'SEQDEL'
            return 'SETITEM' if op == 'assign' else 'DELITEM'
        return 'SETATTR' if op == 'assign' else 'DELATTR'
    return None


def model_lookup(regs, with_defaults, ops_available, op, o):
    """-> set of admissible handler descriptors: 'H:<tag>' | behaviour name | False (unsupported) | None (operation unknown)"""
    if op not in ops_available and not with_defaults and not any(op in r[1] for r in regs):
        return {None}
    Tcls = type(o)
    # 1. the exact type
    mine = [r for r in regs if r[0] is Tcls]
    if mine:
        explicit = [r for r in mine if op in r[1]]
        if explicit:
            return {('H:' + explicit[-1][1][op]) if explicit[-1][1][op] is not False else False}
        if op in ops_available:
            return {auto(op, Tcls)}
    # 2. candidates registered without exact
    cands = []   # (class or None, is_real, handler)
    seen = set()
    for cls, ops, exact in regs:
        if exact or cls in seen or not isinstance(o, cls):
            continue
        mineC = [r for r in regs if r[0] is cls]
        explicit = [r for r in mineC if op in r[1]]
        if explicit:
            h = ('H:' + explicit[-1][1][op]) if explicit[-1][1][op] is not False else False
        elif op in ops_available:
            h = auto(op, cls)
        else:
            continue
        # a class is matched by subclass instances for this operation once a non-exact registration covered the operation
        # (operations with auto-discovery are covered by every registration, 'keys' only when given)
        if any((not r[2]) and (op in r[1] or op in ops_available) for r in mineC):
            seen.add(cls)
            cands.append((cls, cls in Tcls.__mro__, h))
    if with_defaults:
        for name, test, real, table in BUILTIN:
            if op in table and test(o):
                cands.append((real if real is not None else name, real is not None and real in Tcls.__mro__, table[op]))
    if not cands:
        return {False}
    reals = [c for c in cands if c[1] and c[0] is not object]
    if reals:
        # the nearest one: first in the method resolution order of the object's type (which is also a minimal element)
        nearest = min(reals, key=lambda c: Tcls.__mro__.index(c[0]))
        return {nearest[2]}
    # only object and duck types: any of them that is not shadowed by a strictly more specific real class
    return {c[2] for c in cands if not (c[0] is object and len(cands) > 1)} or {c[2] for c in cands}


def expected_outcomes(op, cname, handlers, get_handlers):
    """outcome strings for every admissible handler (keys observations combine keys and get handlers)"""
    outs = set()
    for h in handlers:
        if op == 'keys':
            for gh in get_handlers:
                outs.add(apply_behaviour('keys', cname, h, gh))
            if h in (False, None):
                outs.add(apply_behaviour('keys', cname, h, None))
        else:
            outs.add(apply_behaviour(op, cname, h, None))
    return outs


def apply_behaviour(op, cname, h, gh):
    o = CLS[cname]()
    try:
        if op == 'get':
            if h in (False, None):
                return 'UnregisteredTarget'
            if h.startswith('H:'):
                return repr('H:get:' + h[2:])
            try:
                if h == 'GETATTR':
                    return repr(getattr(o, 'x'))
                if h == 'GETITEM':
                    return repr(o['x'])
                if h == 'SEQGET':
                    return repr(o[int('x')])
            except Exception:
                return 'GlomError:PathAccessError'
        if op == 'iterate':
            if h in (False, None):
                return 'UnregisteredTarget'
            if h.startswith('H:'):
                return repr(['H:iterate:' + h[2:]])
            return repr(list(iter(o)))
        if op == 'keys':
            def get(k):
                if gh in (False, None):
                    raise LookupError()
                if gh.startswith('H:'):
                    return 'H:get:' + gh[2:]
                if gh == 'GETATTR':
                    return getattr(o, k)
                if gh == 'GETITEM':
                    return o[k]
                return o[int(k)]
            if h in (False, None) or gh in (False, None):
                # no keys (or no get) handler: children come from iteration, if registered
                return None   # resolved by the caller through the iterate outcome
            if h.startswith('H:'):
                ks = ['K:' + h[2:]]
            elif h == 'DICTKEYS':
                ks = list(o.keys())
            else:
                ks = list(o.__dict__.keys())
            out = []
            for k in ks:
                try:
                    out.append(get(k))
                except Exception:
                    pass
            return repr(out)
        if op in ('assign', 'delete'):
            if h in (False, None):
                return 'UnregisteredTarget'
            if h.startswith('H:'):
                return 'log=%r %s=%r' % (['H:%s:%s' % (op, h[2:])], 'y' if op == 'assign' else 'x', probe(o, 'y' if op == 'assign' else 'x'))
            try:
                if h == 'SETATTR':
                    setattr(o, 'y', 1)
                elif h == 'SETITEM':
                    o['y'] = 1
                elif h == 'SEQSET':
                    o[int('y')] = 1
                elif h == 'DELATTR':
                    delattr(o, 'x')
                elif h == 'DELITEM':
                    del o['x']
                elif h == 'SEQDEL':
                    del o[int('x')]
            except Exception:
                return 'GlomError:' + ('PathAssignError' if op == 'assign' else 'PathDeleteError')
            return 'log=[] %s=%r' % ('y' if op == 'assign' else 'x', probe(o, 'y' if op == 'assign' else 'x'))
    except Exception as e:
        return 'model-error:%r' % (e,)


def admissible(regs, with_defaults, ops_available, op, cname):
    o = CLS[cname]()
    hs = model_lookup(regs, with_defaults, ops_available, op, o)
    if op != 'keys':
        return expected_outcomes(op, cname, hs, None)
    ghs = model_lookup(regs, with_defaults, ops_available, 'get', o)
    outs = set()
    for h in hs:
        for gh in ghs:
            r = apply_behaviour('keys', cname, h, gh)
            if r is None:
                # fall back to iteration
                for ih in model_lookup(regs, with_defaults, ops_available, 'iterate', o):
                    if ih in (False, None):
                        outs.add(repr([]))
                    else:
                        outs.add(apply_behaviour('iterate', cname, ih, None))
            else:
                outs.add(r)
    return outs


# ---------------------------------------------------------------------------
# histories

def apply_event(registries, ev):
    which, cname, opset, exact = ev
    kwargs = {op: (mk_handler(op, tag) if tag is not False else False) for op, tag in ops_of(opset, cname).items()}
    reg = registries[which]
    if which == 'module':
        G.register(CLS[cname], exact=exact, **kwargs)
    else:
        reg.register(CLS[cname], exact=exact, **kwargs)


def run_history_inproc(family, hist, observe_every, with_module):
    registries = {'default': Glommer(), 'bare': Glommer(register_default_types=False)}
    fresh_specs()
    callers = {'default': registries['default'].glom, 'bare': registries['bare'].glom}
    if with_module:
        registries['module'] = None
        callers['module'] = glom
    model = {k: [] for k in callers}
    problems = []
    last = {k: observe_all(callers[k], family, k != 'bare') for k in callers} if observe_every else None
    if observe_every:
        problems += check_obs(family, last, model)
    for i, ev in enumerate(hist):
        apply_event(registries, ev)
        which, cname, opset, exact = ev
        model[which].append((CLS[cname], ops_of(opset, cname), exact))
        if observe_every or i == len(hist) - 1:
            now = {k: observe_all(callers[k], family, k != 'bare') for k in callers}
            problems += check_obs(family, now, model)
            if observe_every:
                for k in callers:
                    if k != which and now[k] != last[k]:
                        diff = [(key, last[k][key], now[k][key]) for key in now[k] if now[k][key] != last[k][key]][:2]
                        problems.append('event %r on registry %r changed registry %r: %r' % (ev, which, k, diff))
            last = now
        if problems:
            break
    final = last if last is not None else {k: observe_all(callers[k], family, k != 'bare') for k in callers}
    return problems, final


OPS_AVAILABLE = {'default': ['get', 'iterate', 'assign', 'delete'], 'module': ['get', 'iterate', 'assign', 'delete'],
                 'bare': ['get', 'iterate', 'assign', 'delete']}


def check_obs(family, obs, model):
    problems = []
    for k, o in obs.items():
        for (op, cname), seen in o.items():
            if op == 'fold':
                base = o[('iterate', cname)]
                if not (seen == base or (not base.startswith('[') and not seen.startswith('['))):
                    problems.append('registry %s: a fold over %s() gives %s, the list spec [T] gives %s (one iterate handler for both)' % (k, cname, seen, base))
                continue
            if op in ('get-in-dict', 'get-in-dictsub'):
                base = o[('get', cname)]
                if seen != base:
                    problems.append('registry %s: x read from %s() directly gives %s, as second path segment (%s) %s' % (k, cname, base, op, seen))
                continue
            adm = admissible(model[k], k != 'bare', OPS_AVAILABLE[k], 'assign' if op == 'assign-created' else op, cname)
            if seen not in adm:
                problems.append('registry %s: %s on %s() observed %s, admissible %s (registrations %s)' % (
                    k, op, cname, seen, sorted(map(str, adm)), [(r[0].__name__, sorted(r[1]), r[2]) for r in model[k]]))
                if len(problems) >= 3:
                    return problems
    return problems


def in_child(fn):
    """run fn() in a forked child (pristine module-level registry) and return its picklable result"""
    r, w = os.pipe()
    pid = os.fork()
    if pid == 0:
        try:
            os.close(r)
            try:
                data = pickle.dumps(('ok', fn()))
            except BaseException as e:
                data = pickle.dumps(('err', repr(e)))
            with os.fdopen(w, 'wb') as f:
                f.write(data)
        finally:
            os._exit(0)
    os.close(w)
    with os.fdopen(r, 'rb') as f:
        data = f.read()
    os.waitpid(pid, 0)
    return pickle.loads(data)


def run_history(case):
    family, hist, with_module = case

    def both():
        p1, f1 = run_history_inproc(family, hist, True, with_module)
        p2, f2 = run_history_inproc(family, hist, False, with_module) if not with_module else ([], None)
        return p1, f1, p2, f2

    if with_module:
        # warm and cold runs each need a pristine module registry: two children
        st, res1 = in_child(lambda: run_history_inproc(family, hist, True, True))
        st2, res2 = in_child(lambda: run_history_inproc(family, hist, False, True))
        if st != 'ok' or st2 != 'ok':
            raise RuntimeError('child failed: %r %r' % (res1, res2))
        p1, f1 = res1
        p2, f2 = res2
    else:
        p1, f1, p2, f2 = both()
    where = {'family': family, 'history': hist}
    if p1 or p2:
        sig = None
        return R({'expected': 'nearest registered type', 'observed': (p1 + p2)[:3], **where}, 'inadmissible', sig=sig)
    if f1 != f2:
        diff = [(k, key, f1[k][key], f2[k][key]) for k in f1 for key in f1[k] if f1[k][key] != f2[k][key]][:3]
        return R({'expected': 'lookups between registrations do not matter', 'observed': 'warm/cold differ: %r' % (diff,), **where}, 'memo')
    n_user = sum(1 for k in f1 for v in f1[k].values() if 'H:' in v or 'K:' in v)
    return R(None, 'user-handlers' if n_user else 'defaults-only', nontrivial=bool(hist), steps=len(hist) * len(FAMILIES[family]) * len(OPS),
             tags={family} | {ev[0] for ev in hist} | {ev[2] for ev in hist} | {'exact' if ev[3] else 'fuzzy' for ev in hist})


def gen_histories(tier):
    cases = []
    for family in FAMILIES:
        events = [[reg, c, opset, exact] for reg in ('default', 'bare') for c in REGISTRABLE[family]
                  for opset in (OPSETS if tier != 'quick' else ['all', 'get', 'itk', 'mut']) for exact in (False, True)]
        depth = 2 if tier == 'quick' else 3
        per_reg = [e for e in events if e[0] == 'default']
        cases.append([family, [], False])
        # all ordered selections of <= depth events on one registry, plus a foreign event on the other registry in between
        for n in range(1, depth + 1):
            for sel in itertools.permutations(range(len(per_reg)), n):
                if n == 3 and tier != 'quick' and sel[0] % 2:
                    continue
                hist = [per_reg[i] for i in sel]
                cases.append([family, hist, False])
                if n <= 2:
                    cases.append([family, [[('bare'), e[1], e[2], e[3]] for e in hist], False])
                    mixed = list(hist)
                    mixed.insert(1, ['bare', hist[0][1], 'all', False])
                    cases.append([family, mixed, False])
        # an operation switched off (handler False), then the same class registered again without mentioning it, in both orders with a tagged registration
        for c in REGISTRABLE[family]:
            for off in OFFSETS:
                for other in ('get', 'all', 'mut'):
                    for reg in ('default', 'bare'):
                        for exact in (False, True):
                            cases.append([family, [[reg, c, off, exact], [reg, c, other, exact]], False])
                            cases.append([family, [[reg, c, other, exact], [reg, c, off, exact]], False])
                        cases.append([family, [[reg, c, off, False]], False])
        # a bare registration (no handlers) before / after a registration with handlers of the same class, every combination of exact
        for c in REGISTRABLE[family]:
            for other in ('get', 'all', 'mut', 'itk', 'none'):
                for reg in ('default', 'bare'):
                    for e1 in (False, True):
                        for e2 in (False, True):
                            cases.append([family, [[reg, c, other, e1], [reg, c, 'none', e2]], False])
                            if other != 'none':
                                cases.append([family, [[reg, c, 'none', e1], [reg, c, other, e2]], False])
            for reg in ('default', 'bare'):
                for e1 in (False, True):
                    cases.append([family, [[reg, c, 'none', e1]], False])
        if tier == 'quick':
            # depth 3 only for the re-registration pattern: register X, register Y, register X again (possibly with other operations)
            for x, y in itertools.permutations(REGISTRABLE[family], 2):
                for o1, o2, o3 in itertools.product(('get', 'all'), repeat=3):
                    for reg in ('default', 'bare'):
                        cases.append([family, [[reg, x, o1, False], [reg, y, o2, False], [reg, x, o3, False]], False])
        if family == 'diamond-bottom':
            # the registered bottom of a diamond with an unregistered subclass below it: all orders of the three registrations
            for opset in ('get', 'all'):
                evs = [['default', c, opset, False] for c in REGISTRABLE[family]]
                for order in itertools.permutations(evs, 3):
                    cases.append([family, [list(e) for e in order], False])
                    cases.append([family, [['bare'] + list(e[1:]) for e in order], False])
        # module-level registry (forked child per history): single events and ordered pairs over the 'all' / 'get' op sets
        mod_events = [['module', c, opset, exact] for c in REGISTRABLE[family] for opset in ('all', 'get') for exact in (False, True)]
        cases.append([family, [], True])
        for e in mod_events:
            cases.append([family, [e], True])
        if tier != 'quick' or family in ('chain', 'dictsub'):
            for a, b in itertools.permutations(mod_events, 2):
                if a[1] != b[1]:
                    cases.append([family, [a, b], True])
    return cases


# ---------------------------------------------------------------------------
# a default Glommer behaves like the module-level glom

def pool():
    mk = lambda: {'a': {'b': [1, 2, {'c': 3}]}, 'l': [10, 20], 'o': A()}
    specs = [
        ('a.b.2.c', None), ('a.b.5', None), ('o.x', None), ('a.*', None), ('**', None), (['l'], None), (('l', [T]), None),
        (Assign('a.z', 1), 'mut'), (Assign('a.b.0', 'v'), 'mut'), (Assign('q.r.s', 1, missing=dict), 'mut'), (Assign('o.y', 2), 'mut'),
        (Assign(T['l'][0], 5), 'mut'), (Delete('a.b.0'), 'mut'), (Delete('a.zz', ignore_missing=True), 'mut'), (Delete('o.x'), 'mut'),
        (Delete('a.zz'), 'mut'), (Assign('l.9', 1), 'mut'), (Assign('a.b.*.c', 7), 'mut'), (Coalesce('zz', 'l.0'), None),
    ]
    return mk, specs


def snap(v):
    if isinstance(v, dict):
        return {k: snap(x) for k, x in v.items()}
    if isinstance(v, list):
        return [snap(x) for x in v]
    if isinstance(v, A):
        return ('A', snap(v.__dict__))
    return v


def run_pool(idx):
    mk, specs = pool()
    spec, _ = specs[idx]

    def run(caller):
        t = mk()
        try:
            res = caller(t, spec)
            out = ('ok', repr(snap(res)) if res is not t else 'same-object')
        except Exception as e:
            out = ('exc', [c.__name__ for c in type(e).__mro__ if c.__module__.startswith('glom')][:1] or [type(e).__name__])
        return out, repr(snap(t))
    a = run(glom)
    b = run(Glommer().glom)
    if a != b:
        return R({'expected': 'module-level glom: %r' % (a,), 'observed': 'Glommer().glom: %r' % (b,), 'spec': repr(spec)}, 'differs')
    return R(None, a[0][0], steps=2)


def subs(tier, only=None):
    from ..engine import fast_tracebacks
    fast_tracebacks()
    out = [
        Sub('registration-histories', gen_histories(tier), run_history,
            rule='case = (hierarchy family, ordered registration events on the default Glommer / bare Glommer / module registry); after every event all '
                 '(operation, class) pairs are observed on all registries; every history is run observing-after-every-event and observing-only-at-the-end',
            min_nontrivial=1000, min_outcomes=2,
            required_tags=list(FAMILIES) + ['default', 'bare', 'module', 'all', 'get', 'itk', 'mut', 'exact', 'fuzzy'], case_timeout=60),
        Sub('glommer-vs-module', list(range(len(pool()[1]))), run_pool,
            rule='fixed pool of (target, spec) pairs incl. Assign / Delete with string and T paths: Glommer().glom == glom', min_nontrivial=10,
            min_outcomes=2, parallel=False),
    ]
    return [s for s in out if only in (None, s.name)]
