"""C07 - Scope bindings are lexically scoped, chain forward, never outlive the call.

Enumerated: every tree shape of depth <= 2 (plus depth-3 shapes that extend one slot of a
depth-2 shape) over {tuple, Pipe, dict, list, Coalesce, And, Or, Switch(key, value)}; one
binder at every slot p of every kind {S(k=..), A.k, Let, A.globals.k, Vars + A.v.k,
Ref(name, spec), Spec(.., scope=)}, one reader at every other slot q {S.k, S['k'],
S.globals.k, S.v.k, Ref(name)}, optionally a second binder of the same name (shadowing) or
a failing leaf (so that later Coalesce / Or / Switch branches run) at a third slot; caller
scope absent / {'k': 'outer'}; every call is made twice on the same spec object.
Oracle: a frame-chain interpreter of the visibility rule stated in DESIGN.md 3/C07.
A fixed menu covers Match-dict keys, Regex groups, S-rooted wildcards and call isolation.
"""
import itertools
import json

from glom import (glom, T, S, A, Val, Spec, Ref, Pipe, Coalesce, And, Or, Switch, Match, Regex, Vars, Let, Invoke, Auto,
                  GlomError, PathAccessError, Iter, Path)

from ..engine import R, Sub

PROPERTY = 'C07'
ASSUMPTIONS = [
    'visibility rule: a binder writes into its own evaluation frame; a reader sees it iff that frame is on the reader\'s parent chain, '
    'where step n+1 of a tuple/Pipe is a child of step n and a Switch value is a child of its key spec',
    'an unresolved Ref(name) surfaces as KeyError (it is not a GlomError); the generator also produces those cases and only compares the class',
    'targets are [7, 8] and what the structure makes of it; names k, v, r',
]

UNBOUND = '<unbound>'
LOG = []


class Logger:
    def __init__(self, tag):
        self.tag = tag

    def __call__(self, value, target):
        LOG.append((self.tag, repr(value)))
        return target

    def __repr__(self):
        return 'log_%s' % self.tag


# ---------------------------------------------------------------------------
# building glom specs from terms

def build(term):
    k = term[0]
    if k == 'nop':
        return T
    if k == 'valnop':
        return Val('filler')
    if k == 'fail':
        return T['__no_such_key__']
    if k == 'bind':
        kind, name, val = term[1], term[2], term[3]
        if kind == 'S':
            return S(**{name: Val(val)})
        if kind == 'A':
            return getattr(A, name)
        if kind == 'Let':
            return Let(**{name: Val(val)})
        if kind == 'G':
            return getattr(A.globals, name)
        if kind == 'V':
            return getattr(A.v, name)
        if kind == 'R':
            return Ref(name, Val(val))
        if kind == 'P':
            return Spec(T, scope={name: val})
    if k == 'read':
        kind, name, tag = term[1], term[2], term[3]
        if kind == 'S.':
            src = Coalesce(getattr(S, name), default=UNBOUND)
        elif kind == 'S[':
            src = Coalesce(S[name], default=UNBOUND)
        elif kind == 'G':
            src = Coalesce(getattr(S.globals, name), default=UNBOUND)
        elif kind == 'V':
            src = Coalesce(getattr(S.v, name), default=UNBOUND)
        elif kind == 'R':
            src = Ref(name)
        elif kind == 'P':   # reader directly inside a Spec(scope=) of another name plus the read itself
            src = Spec(Coalesce(S[name], default=UNBOUND), scope={'other': 1})
        return Invoke(Logger(tag)).specs(src, T)
    kids = term[1]
    if k == 'tuple':
        return tuple(build(x) for x in kids)
    if k == 'pipe':
        return Pipe(*[build(x) for x in kids])
    if k == 'dict':
        return {('k%d' % i): build(x) for i, x in enumerate(kids)}
    if k == 'list':
        return [build(kids[0])]
    if k == 'coalesce':
        return Coalesce(*[build(x) for x in kids])
    if k == 'and':
        return And(*[build(x) for x in kids])
    if k == 'or':
        return Or(*[build(x) for x in kids])
    if k == 'switch':
        return Switch([(build(kids[0]), build(kids[1]))])
    raise AssertionError(term)


# ---------------------------------------------------------------------------
# reference: frames

class RefFail(Exception):
    pass


class RefKeyError(Exception):
    pass


class Frame:
    __slots__ = ('vars', 'parent')

    def __init__(self, parent, vars=None):
        self.parent, self.vars = parent, dict(vars or {})

    def lookup(self, name):
        f = self
        while f is not None:
            if name in f.vars:
                return f.vars[name]
            f = f.parent
        raise KeyError(name)


def iterate(v):
    if isinstance(v, (list, tuple)):
        return list(v)
    if isinstance(v, dict):
        return list(v.keys())
    raise RefFail()


def ev(term, target, parent, g, log):
    """-> (value, own frame)"""
    F = Frame(parent)
    k = term[0]
    if k == 'nop':
        return target, F
    if k == 'valnop':
        return 'filler', F
    if k == 'fail':
        raise RefFail()
    if k == 'bind':
        kind, name, val = term[1], term[2], term[3]
        if kind in ('S', 'Let'):
            F.vars[name] = val
            return target, F
        if kind == 'A':
            F.vars[name] = target
            return target, F
        if kind == 'G':
            g[name] = target
            return target, F
        if kind == 'V':
            try:
                obj = F.lookup('v')
            except KeyError:
                raise RefFail()
            obj[name] = target
            return target, F
        if kind == 'R':
            F.vars[('ref', name)] = val
            return val, F
        if kind == 'P':
            F.vars[name] = val
            return target, F
    if k == 'read':
        kind, name, tag = term[1], term[2], term[3]
        # Invoke frame F -> src frame; none of them binds anything the reader looks for
        if kind in ('S.', 'S[', 'P'):
            try:
                v = F.lookup(name)
            except KeyError:
                v = UNBOUND
        elif kind == 'G':
            v = g.get(name, UNBOUND)
        elif kind == 'V':
            try:
                v = F.lookup('v').get(name, UNBOUND)
            except KeyError:
                v = UNBOUND
        elif kind == 'R':
            try:
                v = F.lookup(('ref', name))
            except KeyError:
                raise RefKeyError(name)
        log.append((tag, repr(v)))
        return target, F
    kids = term[1]
    if k in ('tuple', 'pipe'):
        cur, par = target, F
        for kid in kids:
            cur, par = ev(kid, cur, par, g, log)
        return cur, F
    if k == 'dict':
        return {('k%d' % i): ev(kid, target, F, g, log)[0] for i, kid in enumerate(kids)}, F
    if k == 'list':
        return [ev(kids[0], item, F, g, log)[0] for item in iterate(target)], F
    if k == 'and':
        res = target
        for kid in kids:
            res = ev(kid, target, F, g, log)[0]
        return res, F
    if k in ('coalesce', 'or'):
        last = None
        for kid in kids:
            try:
                return ev(kid, target, F, g, log)[0], F
            except RefFail as f:
                last = f
        raise last
    if k == 'switch':
        try:
            _, kf = ev(kids[0], target, F, g, log)
        except RefFail:
            raise RefFail()
        return ev(kids[1], target, kf, g, log)[0], F
    raise AssertionError(term)


def expected(term, caller, uses_vars):
    log = []
    root = Frame(None, caller or {})
    g = {}
    parent = root
    try:
        if uses_vars:
            # Pipe(S(v=Vars()), shape): the shape is step 2 of a chain whose step 1 binds v
            pipe = Frame(root)
            step1 = Frame(pipe, {'v': {}})
            val, _ = ev(term, [7, 8], step1, g, log)
        else:
            val, _ = ev(term, [7, 8], root, g, log)
        return ('ok', repr(val)), log
    except RefFail:
        return ('glomerror', None), log
    except RefKeyError:
        return ('KeyError', None), log


def run_case(case):
    term, caller, uses_vars = case
    want, want_log = expected(term, caller, uses_vars)
    spec = build(term)
    if uses_vars:
        spec = Pipe(S(v=Vars()), spec)
    kwargs = {}
    caller_obj = None
    if caller is not None:
        caller_obj = dict(caller)
        kwargs['scope'] = caller_obj
    outs = []
    for attempt in range(2):   # the same spec object twice: nothing may survive the first call
        del LOG[:]
        try:
            res = glom([7, 8], spec, **kwargs)
            got = ('ok', repr(res))
        except KeyError as e:
            got = ('glomerror', None) if isinstance(e, GlomError) and not type(e).__name__.startswith('GlomError.wrap') else ('KeyError', None)
        except GlomError as e:
            got = ('glomerror', None)
        except Exception as e:
            got = ('exc', repr(e))
        outs.append((got, list(LOG)))
    where = {'spec': repr(spec), 'scope': repr(caller)}
    oc = want[0]
    for attempt, (got, log) in enumerate(outs):
        if got != want or log != want_log:
            return R({'expected': '%r reads %r' % (want, want_log), 'observed': '%r reads %r (call #%d)' % (got, log, attempt + 1), **where}, oc)
    if caller is not None and caller_obj != caller:
        return R({'expected': 'caller scope unchanged %r' % (caller,), 'observed': repr(caller_obj), **where}, oc)
    seen_bound = any(v != repr(UNBOUND) and v != repr('outer') for _, v in want_log)
    return R(None, oc + (':bound' if seen_bound else ':unbound'), nontrivial=bool(want_log), steps=len(want_log) + 1,
             tags=set(kinds_in(term)))


def kinds_in(term):
    k = term[0]
    if k in ('bind', 'read'):
        return [k + ':' + term[1]]
    if k in ('nop', 'fail', 'valnop'):
        return [k]
    out = [k]
    for kid in term[1]:
        out += kinds_in(kid)
    return out


# ---------------------------------------------------------------------------
# shapes

CONSTRUCTS = ['tuple', 'pipe', 'dict', 'coalesce', 'and', 'or', 'switch']
SLOT = ['slot']


def shapes(depth):
    if depth == 0:
        return [SLOT]
    prev = shapes(depth - 1)
    out = [SLOT]
    for c in CONSTRUCTS:
        for a, b in itertools.product(prev, repeat=2):
            out.append([c, [a, b]])
    for a in prev:
        out.append(['list', [a]])
    seen, uniq = set(), []
    for s in out:
        key = json.dumps(s)
        if key not in seen:
            seen.add(key)
            uniq.append(s)
    return uniq


def count_slots(s):
    if s == SLOT:
        return 1
    return sum(count_slots(x) for x in s[1])


def fill(s, leaves, idx=None):
    idx = idx if idx is not None else [0]
    if s == SLOT:
        leaf = leaves[idx[0]]
        idx[0] += 1
        return leaf
    return [s[0], [fill(x, leaves, idx) for x in s[1]]]


BINDERS = [('S', ['S.', 'S[', 'P']), ('A', ['S.']), ('Let', ['S[']), ('G', ['G']), ('V', ['V']), ('R', ['R']), ('P', ['S['])]


def cases_for_shape(shape, rich):
    n = count_slots(shape)
    out = []
    if n < 2:
        return out
    for bkind, rkinds in BINDERS:
        name = 'r' if bkind == 'R' else 'k'
        for p in range(n):
            for q in range(n):
                if p == q:
                    continue
                for rkind in rkinds:
                    base = [['nop']] * n
                    base = list(base)
                    base[p] = ['bind', bkind, name, 'b%d' % p]
                    base[q] = ['read', rkind, name, 'q%d' % q]
                    callers = [None, {'k': 'outer'}] if bkind in ('S', 'A') and rkind != 'P' else [None]
                    for caller in callers:
                        out.append([fill(shape, base), caller, bkind == 'V'])
                    if not rich:
                        continue
                    for r in range(n):
                        if r in (p, q):
                            continue
                        # a failing leaf elsewhere (lets Coalesce / Or / Switch fall through)
                        v = list(base)
                        v[r] = ['fail']
                        out.append([fill(shape, v), None, bkind == 'V'])
                        # a second binder of the same name (shadowing)
                        if bkind in ('S', 'A', 'R', 'P', 'Let'):
                            v = list(base)
                            v[r] = ['bind', 'S' if bkind != 'R' else 'R', name, 'c%d' % r]
                            out.append([fill(shape, v), None, False])
                        # a Val(..) step elsewhere (a spec kind that an implementation may be tempted to short-cut)
                        v = list(base)
                        v[r] = ['valnop']
                        out.append([fill(shape, v), None, bkind == 'V'])
                        # a second reader
                        v = list(base)
                        v[r] = ['read', rkinds[0], name, 'q%d' % r]
                        out.append([fill(shape, v), None, bkind == 'V'])
    return out


def gen_cases(tier):
    d2 = shapes(2)
    cases = []
    for s in d2:
        cases.extend(cases_for_shape(s, rich=(tier != 'quick' or count_slots(s) <= 3)))
    # flat chains of three steps whose first step is itself a construct (bindings made inside it must not reach steps 2 and 3)
    for a in shapes(1):
        for c in ('tuple', 'pipe'):
            cases.extend(cases_for_shape([c, [a, SLOT, SLOT]], rich=True))
            cases.extend(cases_for_shape([c, [SLOT, a, SLOT]], rich=(tier != 'quick')))
    # depth 3: one slot of a depth-2 shape replaced by a depth-1 shape
    d1 = [s for s in shapes(1) if s != SLOT]
    step = 1 if tier != 'quick' else 12
    k = 0
    for s in d2:
        n = count_slots(s)
        if n < 3:
            continue
        for i in range(n):
            for sub in d1:
                k += 1
                if k % step:
                    continue
                leaves = [SLOT] * n
                leaves = list(leaves)
                leaves[i] = sub
                s3 = fill(s, leaves)
                cases.extend(cases_for_shape(s3, rich=(tier != 'quick' and count_slots(s3) <= 4)))
    seen, uniq = set(), []
    for c in cases:
        key = json.dumps(c)
        if key not in seen:
            seen.add(key)
            uniq.append(c)
    return uniq


# ---------------------------------------------------------------------------
# fixed menu

def menu():
    out = []
    out.append(('scope-kwarg-readable', lambda: glom(1, (S.x, T), scope={'x': 5}), 5))
    out.append(('scope-kwarg-getitem', lambda: glom(1, S['x'], scope={'x': 5}), 5))
    out.append(('matchdict-key-binding-to-own-value',
                lambda: glom({'a': 1, 'b': 2}, Match({A.key: Auto(S.key)})), {'a': 'a', 'b': 'b'}))
    out.append(('matchdict-regex-key-group-to-own-value',
                lambda: glom({'x1': 1, 'y2': 2}, Match({Regex(r'(?P<pre>[a-z])\d'): Auto(S.pre)})), {'x1': 'x', 'y2': 'y'}))
    out.append(('matchdict-key-binding-not-in-sibling',
                lambda: glom({'a': 1}, (Match({A.key: int}), Coalesce(S.key, default='gone'))), 'gone'))
    out.append(('matchdict-key-binding-not-in-other-value',
                lambda: glom({'a': 1, 7: 2}, Match({A.key & str if False else Regex(r'(?P<pre>a)'): int, int: Auto(Coalesce(S.pre, default='gone'))})), {'a': 1, 7: 'gone'}))
    from glom.matching import Required, Optional as MOptional
    out.append(('matchdict-Required-key-binding-to-own-value',
                lambda: glom({'a': 1, 'b': 2}, Match({Required(A.key): Auto(S.key)})), {'a': 'a', 'b': 'b'}))
    out.append(('matchdict-Required-key-binding-shadows-outer',
                lambda: glom({'a': 1}, (S(key=Val('outer')), Match({Required(A.key): Auto(S.key)}))), {'a': 'a'}))
    out.append(('matchdict-Required-key-binding-not-after',
                lambda: glom({'a': 1}, (Match({Required(A.key): int}), Coalesce(S.key, default='gone'))), 'gone'))
    out.append(('matchdict-Required-regex-key-group-to-own-value',
                lambda: glom({'x1': 1}, Match({Required(Regex(r'(?P<pre>[a-z])\d')): Auto(S.pre)})), {'x1': 'x'}))
    # a binder wrapped directly in Spec(...): the Spec is a nesting level of its own, the binding stays inside
    out.append(('Spec-of-binder-does-not-leak-A', lambda: glom(5, (Spec(A.x), Coalesce(S.x, default='gone'))), 'gone'))
    out.append(('Spec-of-binder-does-not-leak-S', lambda: glom(5, (S(x=Val('outer')), Spec(S(x=Val('inner'))), S.x)), 'outer'))
    out.append(('Spec-of-binder-in-dict-value', lambda: glom(5, {'a': Spec(A.x), 'b': Coalesce(S.x, default='gone')}), {'a': 5, 'b': 'gone'}))
    out.append(('Spec-of-reader-sees-enclosing', lambda: glom(5, (A.x, Spec(S.x))), 5))
    out.append(('Auto-of-binder-does-not-leak', lambda: glom(5, (Auto(A.x), Coalesce(S.x, default='gone'))), 'gone'))
    # the default of a Coalesce is evaluated where the Coalesce stands: nothing a failed or skipped branch bound is visible to it
    out.append(('coalesce-default-does-not-see-Spec-scope-of-failed-branch',
                lambda: glom(1, (S(x=Val('outer')), Coalesce(Spec(T['zz'], scope={'x': 'inner'}), default=S.x))), 'outer'))
    out.append(('coalesce-default-unbound-after-failed-branch',
                lambda: glom(1, Coalesce(Coalesce(Spec(T['zz'], scope={'x': 'inner'}), default=S.x), default='x is unbound')), 'x is unbound'))
    out.append(('coalesce-default-does-not-see-binding-of-skipped-branch',
                lambda: glom(1, (S(x=Val('outer')), Coalesce((S(x=Val('inner')), T), default=S.x, skip=1))), 'outer'))
    out.append(('coalesce-default-does-not-see-A-binding-of-skipped-branch',
                lambda: glom(7, Coalesce(Coalesce((A.x, T), default=S.x, skip=7), default='x is unbound')), 'x is unbound'))
    out.append(('coalesce-later-branch-does-not-see-failed-branch', lambda: glom(1, (S(x=Val('outer')), Coalesce((S(x=Val('inner')), T['zz']), S.x))), 'outer'))
    # binders spelled as Paths
    out.append(('Path-A-binder', lambda: glom(5, (Path(A, 'x'), S.x)), 5))
    out.append(('Path-A-binder-shadows', lambda: glom(5, (S(x=Val('outer')), (Path(A, 'x'), S.x))), 5))
    out.append(('Path-A-attr-binder', lambda: glom(5, (Path(A.x), S.x)), 5))
    out.append(('Path-S-reader', lambda: glom(5, (A.x, Path(S, 'x'))), 5))
    def glommer_globals():
        from glom import Glommer
        g, h = Glommer(), Glommer()
        g.glom(1, A.globals.seen)
        return (g.glom(1, Coalesce(S.globals.seen, default='gone')), h.glom(1, Coalesce(S.globals.seen, default='gone')),
                glom(1, Coalesce(S.globals.seen, default='gone')))
    out.append(('globals-do-not-outlive-a-Glommer-call', glommer_globals, ('gone', 'gone', 'gone')))
    # an inner binding to a value EQUAL to the outer one (a fresh empty list) is a binding of its own
    out.append(('inner-equal-mutable-binding-is-its-own',
                lambda: glom(1, (S(acc=[]), (S(acc=[]), S.acc.append(Val('inner')), S.acc), S.acc)), []))
    out.append(('inner-equal-mutable-binding-per-item',
                lambda: glom([1, 2], (S(acc=[]), [(S(acc=[]), S.acc.append(T), S.acc)], S.acc)), []))
    out.append(('inner-equal-dict-binding-in-dict-values',
                lambda: glom(1, (S(d={}), {'a': (S(d={}), S.d.setdefault(Val('k'), Val(1)), S.d), 'outer': S.d})), {'a': {'k': 1}, 'outer': {}}))
    out.append(('switch-key-binding-to-own-value', lambda: glom(3, Switch([(S(hit=Val('first')), S.hit)])), 'first'))
    out.append(('switch-key-binding-not-after', lambda: glom(3, (Switch([(S(hit=Val('first')), T)]), Coalesce(S.hit, default='gone'))), 'gone'))
    out.append(('regex-group-chains-forward', lambda: glom('ab12', (Regex(r'(?P<w>[a-z]+)(?P<n>\d+)'), S.n)), '12'))
    out.append(('regex-group-not-in-enclosing', lambda: glom('ab12', ((Regex(r'(?P<w>[a-z]+)\d+'), T), Coalesce(S.w, default='gone'))), 'gone'))
    out.append(('globals-reach-everywhere-after', lambda: glom([1, 2], ([A.globals.last], S.globals.last)), 2))
    out.append(('globals-do-not-outlive-call', lambda: (glom(1, A.globals.g), glom(1, Coalesce(S.globals.g, default='gone')))[1], 'gone'))

    def vars_isolated():
        spec = (S(v=Vars(n=0)), A.v.n, S.v.n)
        return glom(5, spec), glom(6, Pipe(S(v=Vars()), Coalesce(S.v.n, default='fresh')))
    out.append(('vars-fresh-per-call', vars_isolated, (5, 'fresh')))

    def vars_repeat():
        spec = (S(v=Vars()), Coalesce(S.v.seen, default='first'), A.globals.r, Val(1), A.v.seen, S.globals.r)
        return glom(0, spec), glom(0, spec)
    out.append(('vars-same-spec-twice', vars_repeat, ('first', 'first')))
    out.append(('spec-scope-overrides-for-subtree', lambda: glom(1, (S(k=Val('o')), {'in': Spec(S.k, scope={'k': 'i'}), 'out': S.k})), {'in': 'i', 'out': 'o'}))
    out.append(('inner-shadows-outer', lambda: glom(1, (S(k=Val('o')), ((S(k=Val('i')), S.k), S.k))), 'o'))
    out.append(('inner-shadows-outer-2', lambda: glom(1, (S(k=Val('o')), {'x': (S(k=Val('i')), S.k), 'y': S.k})), {'x': 'i', 'y': 'o'}))
    out.append(('ref-nearest-enclosing', lambda: glom(1, Ref('r', {'a': Ref('r', Val('inner')), 'b': Val(2)})), {'a': 'inner', 'b': 2}))
    def shared_bare_ref():
        from glom import M
        use = Ref('r')      # ONE bare Ref object placed below two different definitions of the name, in one call and across calls
        body_a = Switch([(M == 0, Val('A0')), (M == 1, (Val(0), use))])
        body_b = Switch([(M == 0, Val('B0')), (M == 1, (Val(0), use))])
        return (glom(1, {'a': Ref('r', body_a), 'b': Ref('r', body_b)}), glom(1, Ref('r', body_b)), glom(1, Ref('r', body_a)))
    out.append(('one-bare-ref-object-under-two-definitions', shared_bare_ref, ({'a': 'A0', 'b': 'B0'}, 'B0', 'A0')))
    out.append(('ref-recursion', lambda: glom([1, [2, [3]]], Ref('r', Coalesce([Ref('r')], T))), [1, [2, [3]]]))

    def caller_untouched():
        sc = {'x': 1}
        glom(5, (S(x=Val(2)), A.y, A.globals.z, S.x), scope=sc)
        return sc
    out.append(('caller-scope-never-modified', caller_untouched, {'x': 1}))

    def sibling_calls():
        a = glom(1, (S(k=Val('first')), S.k))
        b = glom(1, Coalesce(S.k, default='clean'))
        return a, b
    out.append(('bindings-never-outlive-call', sibling_calls, ('first', 'clean')))
    out.append(('list-elements-isolated', lambda: glom([1, 2], [Coalesce(S.seen, (A.seen, Val('new')))]), ['new', 'new']))
    out.append(('dict-values-isolated', lambda: glom(1, {'a': (A.k, Val('bound')), 'b': Coalesce(S.k, default='gone')}), {'a': 'bound', 'b': 'gone'}))
    out.append(('and-children-isolated', lambda: glom(1, And(A.k, Coalesce(S.k, default='gone'))), 'gone'))
    out.append(('tuple-chain-forward-nested', lambda: glom(1, (A.k, {'a': [S.k]} if False else {'a': (T, S.k)})), {'a': 1}))
    return out


def run_menu(idx):
    name, fn, want = menu()[idx]
    try:
        got = fn()
    except Exception as e:
        got = e
    if isinstance(got, Exception) or got != want:
        return R({'expected': repr(want), 'observed': repr(got), 'name': name}, name)
    return R(None, name, steps=1)


# ---------------------------------------------------------------------------
# entry points: one Spec object used through Spec.glom(scope=) / as a sub-spec / as the key of First, over call histories

import itertools as _it

CALL_SCOPES = [None, {'k': 1}, {'j': 2}, {'k': 3, 'j': 4}, ('chainmap', {'k': 'front'}, {'k': 'back', 'j': 'back-j'})]     # a layered mapping: the front layer wins


def mk_call_scope(c):
    from collections import ChainMap
    if c is None:
        return None
    if isinstance(c, tuple):
        return ChainMap(*[dict(layer) for layer in c[1:]])
    return dict(c)


def flat_call_scope(c):
    if c is None:
        return {}
    if isinstance(c, tuple):
        out = {}
        for layer in reversed(c[1:]):
            out.update(layer)
        return out
    return dict(c)
OWN_SCOPES = [None, {}, {'k': 'own'}, {'j': 'own', 'm': 'own'}]
VARIANTS = ['reader', 'reader-then-bind']


def entry_reader(variant):
    rd = {'k': Coalesce(S.k, default='unset'), 'j': Coalesce(S.j, default='unset'), 'm': Coalesce(S.m, default='unset')}
    if variant == 'reader':
        return rd
    return (rd, A.globals.r, S(m=Val('late'), k=Val('late')), A.late, S.globals.r)


GLOMMER = [None]


def run_entry(case):
    kind, own_i, variant, steps = case
    from glom import Glommer
    GLOMMER[0] = Glommer()          # ONE Glommer for the whole history: a default Glommer takes scope= like glom() does
    own = None if OWN_SCOPES[own_i] is None else dict(OWN_SCOPES[own_i])
    own_before = None if own is None else dict(own)
    if kind == 'spec':
        sp = Spec(entry_reader(variant)) if own is None else Spec(entry_reader(variant), scope=own)
    else:
        sp = Iter().first(Coalesce(S.k, default=None))
    n = 0
    for i, (entry, ci) in enumerate(steps):
        call = mk_call_scope(CALL_SCOPES[ci])
        kw = {} if call is None else {'scope': call}
        o, c = own or {}, flat_call_scope(CALL_SCOPES[ci])
        if kind == 'first':
            want = 5 if c.get('k') else None      # the key spec reads S.k: every item matches, or none
            got = glom([5, 7], sp, **kw)
        else:
            merged = dict(o, **c) if entry == 'method' else dict(c, **o)
            want = {name: merged.get(name, 'unset') for name in ('k', 'j', 'm')}
            try:
                got = sp.glom(5, **kw) if entry == 'method' else GLOMMER[0].glom(5, sp, **kw) if entry == 'glommer' else glom(5, sp, **kw)
            except Exception as e:
                got = 'raised %r' % (e,)
        n += 1
        if got != want:
            return R({'expected': 'call %d sees exactly its own scope= and the Spec\'s: %r' % (i, want), 'observed': repr(got),
                      'history': repr(steps[:i + 1]), 'own': repr(own_before), 'kind': kind, 'variant': variant}, 'leak')
        if call is not None and dict(call) != flat_call_scope(CALL_SCOPES[ci]):
            return R({'expected': 'the caller\'s scope mapping is not modified', 'observed': repr(call), 'history': repr(steps[:i + 1])}, 'caller-scope-modified')
        if own != own_before:
            return R({'expected': 'the mapping given to Spec(scope=) is not modified: %r' % (own_before,), 'observed': repr(own),
                      'history': repr(steps[:i + 1])}, 'spec-scope-modified')
    return R(None, '%s:%d' % (kind, len(steps)), nontrivial=len(steps) > 1, steps=n, tags={kind, variant} | {e for e, _ in steps})


def gen_entries(tier):
    depth = 3 if tier == 'quick' else 4
    cases = []
    choices = [(e, c) for e in ('method', 'subspec') for c in range(len(CALL_SCOPES))]
    for own_i in range(len(OWN_SCOPES)):
        for variant in VARIANTS:
            for d in range(1, depth + 1):
                if d == 4 and (own_i in (0,) or variant == 'reader'):
                    continue
                for steps in _it.product(choices, repeat=d):
                    cases.append(['spec', own_i, variant, [list(x) for x in steps]])
                if d <= 2:
                    # the same calls made through a Glommer (alone, and mixed with the other entry points)
                    gchoices = [('glommer', c) for c in range(len(CALL_SCOPES))]
                    for steps in _it.product(gchoices + (choices if d == 2 else []), repeat=d):
                        if any(e == 'glommer' for e, _ in steps):
                            cases.append(['spec', own_i, variant, [list(x) for x in steps]])
    for d in range(1, depth + 2):
        for steps in _it.product(range(len(CALL_SCOPES)), repeat=d):
            cases.append(['first', 0, 'reader', [['subspec', c] for c in steps]])
    return cases


# ---------------------------------------------------------------------------
# S(a=.., b=.., c=..) / Let(...): all names of one binder are bound together - no value spec sees a sibling keyword of the same binder

BIND_VALUES = ['lit', 'read-a', 'read-b', 'read-c']


def run_simultaneous(case):
    binder, names, values = case
    outer = {'a': 'outer-a', 'b': 'outer-b'}

    def vspec(name, v):
        if v == 'lit':
            return Val('new-' + name)
        return Coalesce(getattr(S, v[-1]), default='unbound')
    kw = {n: vspec(n, v) for n, v in zip(names, values)}       # keyword order = order of *names*
    b = S(**kw) if binder == 'S' else Let(**kw)
    spec = (S(a=Val('outer-a'), b=Val('outer-b')), b, {n: Coalesce(getattr(S, n), default='unbound') for n in 'abc'})
    env = dict(outer)
    new = {}
    for n, v in zip(names, values):
        new[n] = 'new-' + n if v == 'lit' else env.get(v[-1], 'unbound')
    want = dict(env, **new)
    want = {n: want.get(n, 'unbound') for n in 'abc'}
    try:
        got = glom(0, spec)
    except Exception as e:
        got = e
    if got != want:
        return R({'expected': repr(want), 'observed': repr(got), 'binder': '%s(%s)' % (binder, ', '.join('%s=%s' % nv for nv in zip(names, values)))}, 'sequential')
    cross = any(v != 'lit' and v[-1] in names for v in values)
    return R(None, binder + (':cross' if cross else ':plain'), nontrivial=cross, steps=1, tags={binder})


def gen_simultaneous(tier):
    cases = []
    for binder in ('S', 'Let'):
        for k in (2, 3):
            for names in _it.permutations('abc', k):
                for values in _it.product(BIND_VALUES, repeat=k):
                    cases.append([binder, list(names), list(values)])
    return cases


# ---------------------------------------------------------------------------
# ONE binder object whose value is a container literal reading the scope, evaluated under different bindings in one call

BINDER_VALUES = {
    'plain': (lambda: S.x, lambda x, t: x),
    'list': (lambda: [S.x], lambda x, t: [x]),
    'list-with-target': (lambda: [S.x, T['n']], lambda x, t: [x, t['n']]),
    'dict': (lambda: {'v': S.x, 'k': 'lit'}, lambda x, t: {'v': x, 'k': 'lit'}),
    'tuple': (lambda: (S.x, 0), lambda x, t: (x, 0)),
    'nested': (lambda: {'l': [S.x, [S.x]]}, lambda x, t: {'l': [x, [x]]}),
    'set': (lambda: {S.x}, lambda x, t: {x}),
}
BINDER_TEMPLATES = ['siblings', 'rebinding', 'list-items', 'coalesce-retry', 'two-binders']


def run_binder_reuse(case):
    vkind, template, shared = case
    mk, model = BINDER_VALUES[vkind]
    one = S(seen=mk())
    b = (lambda: one) if shared else (lambda: S(seen=mk()))
    t = {'n': 7}
    if template == 'siblings':
        spec = {'a': (S(x=Val(1)), b(), S.seen), 'b': (S(x=Val(2)), b(), S.seen)}
        want = {'a': model(1, t), 'b': model(2, t)}
    elif template == 'rebinding':
        spec = (S(x=Val(1)), b(), S(first=S.seen), S(x=Val(2)), b(), {'first': S.first, 'second': S.seen})
        want = {'first': model(1, t), 'second': model(2, t)}
    elif template == 'list-items':
        t = [{'n': 1}, {'n': 2}, {'n': 1}]
        spec = [(S(x=T['n']), b(), S.seen)]
        want = [model(1, t[0]), model(2, t[1]), model(1, t[2])]
    elif template == 'coalesce-retry':
        spec = Coalesce((S(x=Val(1)), b(), 'zz'), (S(x=Val(2)), b(), S.seen))
        want = model(2, t)
    else:
        spec = (S(x=Val(1)), b(), S(x=S.seen), b(), S.seen)          # the second evaluation reads the first one's result
        want = model(model(1, t), t) if vkind != 'set' else None
    try:
        got = glom(t, spec)
    except Exception as e:
        got = e
    if vkind == 'set' and template == 'two-binders':
        return R(None, 'unhashable', nontrivial=False)
    if isinstance(got, Exception) or got != want:
        return R({'expected': repr(want), 'observed': repr(got), 'value': vkind, 'template': template, 'one_binder_object': shared}, 'binder')
    return R(None, template, nontrivial=True, steps=1, tags={vkind, template, 'shared' if shared else 'fresh'})


# ---------------------------------------------------------------------------
# an inner binding shadows the outer one whatever its VALUE is (None, 0, '', [] ...), for every way of reading the name;
# a Spec(scope=) object re-asserts its names every time it is evaluated

SHADOW_VALUES = {'none': None, 'zero': 0, 'empty-str': '', 'empty-list': [], 'false': False, 'str': 'inner', 'nan-like-tuple': ()}
SHADOW_BINDERS = ['S-call', 'A-name', 'spec-scope', 'caller-scope-then-S']
SHADOW_READERS = {'S.x': lambda: S.x, "S['x']": lambda: S['x'], 'Path(S, x)': lambda: Path(S, 'x'), 'in-dict': lambda: {'r': S.x},
                  'in-arg': lambda: Invoke(lambda v: v).specs(S.x)}


def run_shadow(case):
    vname, binder, rname = case
    v = SHADOW_VALUES[vname]
    reader = SHADOW_READERS[rname]()
    kwargs = {}
    if binder == 'S-call':
        inner = (S(x=Val(v)), reader)
    elif binder == 'A-name':
        inner = (Val(v), A.x, reader)
    elif binder == 'spec-scope':
        inner = Spec(reader, scope={'x': v})
    else:
        inner = (S(x=Val(v)), reader)
        kwargs = {'scope': {'x': 'from-caller'}}
    spec = (S(x=Val('outer')), {'in': inner, 'out': S.x})
    want_in = {'r': v} if rname == 'in-dict' else v
    try:
        got = glom({'t': 1}, spec, **kwargs)
    except Exception as e:
        got = e
    if isinstance(got, Exception) or got != {'in': want_in, 'out': 'outer'} or type(got['in']) is not type(want_in):
        return R({'expected': repr({'in': want_in, 'out': 'outer'}), 'observed': repr(got), 'value': vname, 'binder': binder, 'reader': rname}, 'shadow')
    return R(None, binder, nontrivial=True, steps=1, tags={vname, binder, rname})


RESPEC_TEMPLATES = ['chain', 'siblings', 'pipe', 'after-A', 'nested-in-itself-via-ref']


def run_respec(case):
    template, vname = case
    v = SHADOW_VALUES[vname]
    sp = Spec(S.k, scope={'k': v})
    if template == 'chain':
        spec, want = (sp, S(k=Val('re')), sp), v
    elif template == 'siblings':
        spec, want = {'a': sp, 'b': (S(k=Val('re')), sp), 'c': (S(k=Val('re')), S.k)}, {'a': v, 'b': v, 'c': 're'}
    elif template == 'pipe':
        spec, want = Pipe(sp, S(k=Val('re')), Val(0), sp), v
    elif template == 'after-A':
        spec, want = (sp, Val('re'), A.k, sp), v
    else:
        spec, want = (S(k=Val('outer')), Spec((S(k=Val('re')), sp), scope={'k': 'mid'})), v
    try:
        got = glom({'t': 1}, spec)
    except Exception as e:
        got = e
    if isinstance(got, Exception) or got != want:
        return R({'expected': repr(want), 'observed': repr(got), 'template': template, 'value': vname}, 'respec')
    return R(None, template, nontrivial=True, steps=1, tags={template})


# ---------------------------------------------------------------------------
# bindings made per item of a LAZY iterator that a later chain step consumes stay inside the item, like those of an eager list spec

LAZY_PRODUCERS = {
    'Iter(A.x)': lambda: Iter(A.x), 'Iter(S(x=T))': lambda: Iter(S(x=T)), 'Iter().map(A.x)': lambda: Iter().map(A.x),
    'Iter((A.x, T))': lambda: Iter((A.x, T)), 'Iter().filter(A.x)': lambda: Iter().filter((A.x, Val(True))),
    'eager-list': lambda: [A.x], 'eager-all': lambda: Iter(A.x).all(),
}
LAZY_CONSUMERS = {'list': lambda: list, 'tuple': lambda: tuple, 'lambda': lambda: (lambda it: [v for v in it]), 'list-spec': lambda: [T], 'sum': lambda: (lambda it: sum(1 for _ in it))}
LAZY_SHAPES = ['tuple', 'pipe', 'dict-value-then-sibling', 'outer-binding-survives']


def run_lazy_binder(case):
    pname, cname, shape = case
    prod, cons = LAZY_PRODUCERS[pname](), LAZY_CONSUMERS[cname]()
    reader = Coalesce(S.x, default='not visible')
    if shape == 'tuple':
        spec, want = (prod, cons, reader), 'not visible'
    elif shape == 'pipe':
        spec, want = Pipe(prod, cons, reader), 'not visible'
    elif shape == 'dict-value-then-sibling':
        spec, want = {'a': (prod, cons), 'b': reader}, None
    else:
        spec, want = (S(x=Val('outer')), prod, cons, S.x), 'outer'
    try:
        got = glom([1, 2, 3], spec)
    except Exception as e:
        got = e
    if shape == 'dict-value-then-sibling':
        ok = isinstance(got, dict) and got.get('b') == 'not visible'
    else:
        ok = not isinstance(got, Exception) and got == want
    if not ok:
        return R({'expected': 'the per-item binding of x is not visible to the step after the consumer (%r)' % (want,), 'observed': repr(got),
                  'producer': pname, 'consumer': cname, 'shape': shape}, 'lazy-leak')
    return R(None, shape, nontrivial=True, steps=1, tags={pname, cname, shape})


def subs(tier, only=None):
    from ..engine import fast_tracebacks
    fast_tracebacks()
    out = [
        Sub('lazy-binders', [[p_, c_, s_] for p_ in LAZY_PRODUCERS for c_ in LAZY_CONSUMERS for s_ in LAZY_SHAPES], run_lazy_binder,
            rule='case = (producer that binds x per item - five lazy Iter forms, two eager forms; the chain step that consumes it; composite shape): '
                 'after the consumer, x is what it was before the producer', min_nontrivial=100, min_outcomes=4, required_tags=['Iter(A.x)', 'list', 'tuple']),
        Sub('shadowing-values', [[v, b, r] for v in SHADOW_VALUES for b in SHADOW_BINDERS for r in SHADOW_READERS], run_shadow,
            rule='case = (value of the inner binding incl. None / 0 / empty containers, kind of inner binder, way of reading the name): the inner '
                 'value is read inside, the outer one outside', min_nontrivial=100, min_outcomes=4, required_tags=['none', 'S.x', 'spec-scope']),
        Sub('spec-scope-reasserted', [[t, v] for t in RESPEC_TEMPLATES for v in SHADOW_VALUES], run_respec,
            rule='case = (composite in which ONE Spec(scope=) object is evaluated twice with a re-binding of its name in between, value): '
                 'the Spec sees its own scope both times', min_nontrivial=30, min_outcomes=5, required_tags=['chain', 'siblings']),
        Sub('binder-reuse', [[v, t, sh] for v in BINDER_VALUES for t in BINDER_TEMPLATES for sh in (True, False)], run_binder_reuse,
            rule='case = (binder value: S.x alone or inside a list / dict / tuple / set literal, composite in which the binder is evaluated twice under '
                 'different bindings of x - sibling dict values, re-binding in one chain, list items, a retried Coalesce branch, feeding its own result; '
                 'one binder object or separate equal ones)', min_nontrivial=60, min_outcomes=5, required_tags=['list', 'dict', 'siblings', 'shared']),
        Sub('entry-points', gen_entries(tier), run_entry,
            rule='case = history of calls on ONE Spec object (Spec.glom(t, scope=) / glom(t, spec, scope=), four call scopes, four Spec(scope=) '
                 'mappings, reader with and without in-call binders) and on one Iter().first(key) spec; every call must see exactly its own '
                 'scope= merged with the Spec\'s, nothing from earlier calls, and neither mapping may be modified',
            min_nontrivial=3000, min_outcomes=6, required_tags=['spec', 'first', 'method', 'subspec', 'reader-then-bind']),
        Sub('simultaneous-binding', gen_simultaneous(tier), run_simultaneous,
            rule='case = (S or Let, 2-3 keyword names in every order, each value a literal or a read of a / b / c): the values are evaluated in '
                 'the scope before the binder, then bound together',
            min_nontrivial=300, min_outcomes=4, required_tags=['S', 'Let']),
        Sub('placements', gen_cases(tier), run_case,
            rule='case = (tree shape with a binder at slot p, a reader at slot q, optionally a failing leaf / shadowing binder / second reader at '
                 'slot r; caller scope; Vars prelude); evaluated twice on the same spec object; non-trivial = at least one reader executed',
            min_nontrivial=5000, min_outcomes=4,
            required_tags=['bind:S', 'bind:A', 'bind:Let', 'bind:G', 'bind:V', 'bind:R', 'bind:P', 'read:S.', 'read:S[', 'read:G', 'read:V', 'read:R',
                           'tuple', 'pipe', 'dict', 'list', 'coalesce', 'and', 'or', 'switch']),
        Sub('menu', list(range(len(menu()))), run_menu, rule='fixed menu: Match-dict keys, Regex groups, globals, Vars, Ref, isolation between calls',
            min_nontrivial=15, min_outcomes=15, parallel=False),
    ]
    return [s for s in out if only in (None, s.name)]
