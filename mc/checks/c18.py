"""C18 - T and Path are faithful values: repr, pickle and slicing round-trip.

Sub-checks
  roundtrip : every T / S / A expression and every Path (P segments mixed with T chunks)
              of bounded length over the step menu; eval(repr(x)) and pickle round trip:
              same repr, same structure, same evaluation on an all-accepting recording
              target and on ordinary targets.
  seqlaws   : every Path of length 0..5 over a step alphabet x every index in [-7,7] x every
              in-range slice triple; len / values / items / == / startswith / Path(p, q)
              against the tuple of steps.
  compose   : glom(t, Path(p, q)) == glom(glom(t, p), q) for every split of every C01 path.
"""
import itertools
import pickle

import glom as glom_mod
from glom import glom, T, S, A, Path, PathAccessError

from ..engine import R, Sub
from . import c01

PROPERTY = 'C18'
ASSUMPTIONS = [
    'literal arguments from the menu only (ints, None, float, bool, tuples incl. 1- and 0-tuples, strings with quotes and dots, '
    'slices, builtin len); one level of nested T arguments; no arithmetic steps, no dunder attribute names, no non-finite floats',
    'structure is read through TType.__ops__ / Path.path_t (the representation pickling uses)',
]

NS = {'T': T, 'S': S, 'A': A, 'Path': Path, 'len': len, 'slice': slice}

# step terms; argument sources are python expressions evaluated in NS
ITEM_ARGS = ["'k'", "'it\\'s \"q\"'", "0", "-1", "None", "1.5", "True", "1", "1.0", "'A'", "(1, 2)", "(1,)", "()", "\"it's\"", "'d.t'", "'q\"'",
             "slice(0, 2)", "slice(None, 0, 2)", "(slice(3, 0, -1), 0)", "len", "T.a",       # bounds that are 0 are bounds
             # longer than every default limit of reprlib.Repr (string 30, long 40, tuple 6, nesting 6)
             "('%s', %s, (1, 2, 3, 4, 5, 6, 7, 8), ((((((((1,),),),),),),),))" % ('long-string-' * 4, '1234567890' * 5)]
CALL_ARGS = [("", ""), ("1, 'x'", ""), ("", "k=None"), ("T.a", ""), ("len", ""), ("", "k='it\\'s \"q\"'"), ("'it\\'s \"q\"'", "j=('a\\'b\"c',)")]
STEPS = [['.', 'a'], ['.', 'T']] + [['[', a] for a in ITEM_ARGS] + [['(', a, k] for a, k in CALL_ARGS] + [['x'], ['X']]
P_SEGS = ["'a'", "'d.t'", "0", "None", "(1, 2)", "'S'", "('x', 'y')", "()"]


def ev(src):
    return eval(src, dict(NS))


def apply_step(t, st):
    k = st[0]
    if k == '.':
        return getattr(t, st[1])
    if k == '[':
        return t[ev(st[1])]
    if k == '(':
        return eval('f(%s)' % ', '.join(x for x in (st[1], st[2]) if x), dict(NS, f=t))
    if k == 'x':
        return t.__star__()
    if k == 'X':
        return t.__starstar__()
    raise ValueError(st)


def build_expr(case):
    root = {'T': T, 'S': S, 'A': A}[case['root']]
    if case['wrap'] == 't':
        t = root
        for st in case['steps']:
            t = apply_step(t, st)
        return t
    # Path: consecutive non-P steps are grouped into T chunks
    parts = []
    chunk = None
    first = True
    if case['wrap'] == 'pathroot':
        # the bare root given as a part of its own, every chunk after it spelled from T: Path(S, T.a, 'b')
        parts.append(root)
        first = False
    for st in case['steps']:
        if st[0] == 'P':
            if chunk is not None:
                parts.append(chunk)
                chunk = None
            elif first and root is not T:
                parts.append(root)
            parts.append(ev(st[1]))
        else:
            if chunk is None:
                chunk = root if first else T
            chunk = apply_step(chunk, st)
        first = False
    if chunk is not None:
        parts.append(chunk)
    if not case['steps'] and root is not T and case['wrap'] != 'pathroot':
        parts.append(root)
    return Path(*parts)


def ops_of(x):
    return x.path_t.__ops__ if isinstance(x, Path) else x.__ops__


def struct(x):
    """structural, identity-free description of a T / Path including nested ones"""
    if isinstance(x, (glom_mod.core.TType, Path)):
        ops = ops_of(x)
        root = 'T' if ops[0] is T else 'S' if ops[0] is S else 'A' if ops[0] is A else '?'
        return ('T', root) + tuple(struct(o) for o in ops[1:])
    if isinstance(x, tuple):
        return ('tuple',) + tuple(struct(o) for o in x)
    if isinstance(x, dict):
        return ('dict',) + tuple((k, struct(v)) for k, v in x.items())
    if isinstance(x, slice):
        return ('slice', struct(x.start), struct(x.stop), struct(x.step))
    if isinstance(x, (int, float, str, bool, type(None))):
        return (type(x).__name__, x)
    return ('obj', getattr(x, '__name__', repr(x)))


class Rec:
    """all-accepting target: records the operations applied to it"""
    __slots__ = ('trace',)

    def __init__(self, trace=()):
        object.__setattr__(self, 'trace', trace)

    def __getattr__(self, name):
        if name.startswith('__') or name == 'glomit':
            raise AttributeError(name)
        return Rec(self.trace + (('.', name),))

    def __getitem__(self, k):
        return Rec(self.trace + (('[', struct(k)),))

    def __call__(self, *a, **kw):
        return Rec(self.trace + (('(', struct(a), struct(kw)),))

    def __repr__(self):
        return 'Rec%r' % (self.trace,)


def describe(v):
    if isinstance(v, Rec):
        return ('rec', v.trace)
    if isinstance(v, list):
        return ('list',) + tuple(describe(x) for x in v)
    return ('val', type(v).__name__, repr(v))


def outcome_on(x, target, root):
    kwargs = {}
    if root != 'T':
        kwargs['scope'] = {'a': Rec((('scope', 'a'),)), 'k': Rec((('scope', 'k'),))}
    spec = x
    if root == 'A':
        spec = (x, S)   # after the assignment, look at the whole scope entry through S below
    try:
        res = glom(target, spec, **kwargs)
        if root == 'A':
            # compare what became visible under the names of the menu
            return ('ok', tuple((k, describe(res[k])) for k in ('a', 'k') if k in res))
        return ('ok', describe(res))
    except Exception as e:
        if isinstance(e, PathAccessError):
            return ('pae', e.part_idx, type(e.exc).__name__)
        return ('exc', [c.__name__ for c in type(e).__mro__ if c.__module__ == 'builtins'][:1])


def mk_targets():
    return [Rec(), {'a': {'k': [1, 2, 3]}, 'k': [[4, 5], [6]], 0: 'zero'}, [10, 11, [12]], 5]


def expected_struct(case):
    """the steps as written in the case, independent of how the library stored them"""
    out = ['T', case['root']]
    for st in case['steps']:
        k = st[0]
        if k in ('P', '['):
            out += [struct(k), struct(ev(st[1]))]
        elif k == '.':
            out += [struct('.'), struct(st[1])]
        elif k == '(':
            a, kw = eval('(lambda *a, **kw: (a, kw))(%s)' % ', '.join(x for x in (st[1], st[2]) if x), dict(NS))
            out += [struct('('), struct((a, kw))]
        else:
            out += [struct(k), struct(None)]
    return tuple(out)


def run_roundtrip(case):
    try:
        x = build_expr(case)
    except Exception as e:
        return R(None, 'unbuildable:' + type(e).__name__, nontrivial=False)
    try:
        rx = repr(x)
    except Exception as e:
        return R({'expected': 'repr() of a T / Path works', 'observed': 'raised %r' % (e,), 'case': case}, 'repr-raises')
    where = {'expr': rx, 'case': case}
    if struct(x) != expected_struct(case):
        return R({'expected': 'root and steps as written: %r' % (expected_struct(case),), 'observed': repr(struct(x)), **where}, 'construction')
    # --- eval(repr(x))
    try:
        y = eval(rx, dict(NS))
    except Exception as e:
        return R({'expected': 'eval(repr(x)) reconstructs the object', 'observed': 'eval(%r) raised %r' % (rx, e), **where}, 'repr-syntax')
    import copy as _copy
    for how, z in (('eval(repr)', y), ('pickle', None), ('pickle-0', 0), ('pickle-1', 1), ('pickle-2', 2), ('copy', None), ('deepcopy', None)):
        if how.startswith('pickle') or how in ('copy', 'deepcopy'):
            try:
                z = (_copy.copy(x) if how == 'copy' else _copy.deepcopy(x) if how == 'deepcopy' else
                     pickle.loads(pickle.dumps(x) if z is None else pickle.dumps(x, protocol=z)))
            except Exception as e:
                return R({'expected': '%s round trip' % how, 'observed': 'raised %r' % (e,), **where}, 'pickle-fail')
        if not isinstance(z, (glom_mod.core.TType, Path)):
            return R({'expected': 'a T or Path', 'observed': '%s gives %r' % (how, z), **where}, 'wrong-type')
        if repr(z) != rx:
            return R({'expected': 'same repr %s' % rx, 'observed': '%s has repr %s' % (how, repr(z)), **where}, 'repr-differs')
        if struct(z) != struct(x):
            return R({'expected': 'same steps %r' % (struct(x),), 'observed': '%s has steps %r' % (how, struct(z)), **where}, 'struct-differs')
        if how not in ('eval(repr)', 'pickle'):
            continue   # the other copies are compared structurally only
        if case['root'] != 'T' and any(st[0] in 'xX' for st in case['steps']):
            continue   # wildcards over the interpreter's own scope object: structure checked above, evaluation not enumerated
        for target in mk_targets():
            ox = outcome_on(x, target, case['root'])
            oz = outcome_on(z, target, case['root'])
            if ox != oz:
                return R({'expected': 'original evaluates to %r' % (ox,), 'observed': '%s evaluates to %r on %r' % (how, oz, target), **where}, 'eval-differs')
    tags = set(st[0] for st in case['steps']) | {case['root'], case['wrap']}
    return R(None, 'ok', nontrivial=bool(case['steps']), steps=2 * (len(case['steps']) + 1), tags=tags)


def gen_roundtrip(tier):
    L = 4 if tier != 'quick' else 3
    cases = []
    for root in ('T', 'S', 'A'):
        menu = STEPS if root != 'A' else [s for s in STEPS if s[0] in ('.', '[')]
        for n in range(0, L + 1):
            for seq in itertools.product(menu, repeat=n):
                if root == 'S' and seq and seq[0][0] == '(':
                    continue   # S(...) is the binder form
                if root != 'T' and n > 3:
                    continue
                cases.append({'root': root, 'wrap': 't', 'steps': [list(s) for s in seq]})
    # Paths: P segments mixed with T steps
    pmenu = [['P', s] for s in P_SEGS] + [['.', 'a'], ['[', "'k'"], ['[', '0'], ['[', '(1,)'], ['[', 'slice(1, 2)'],
                                            ['(', "1, 'x'", ''], ['x'], ['X']]
    LP = 5 if tier != 'quick' else 4
    for root in ('T', 'S', 'A'):
        menu = pmenu if root != 'A' else [s for s in pmenu if s[0] in ('.', '[', 'P')]
        for n in range(0, LP + 1):
            for seq in itertools.product(menu, repeat=n):
                if root == 'S' and seq and seq[0][0] == '(':
                    continue
                if root != 'T' and n > 3:
                    continue
                cases.append({'root': root, 'wrap': 'path', 'steps': [list(s) for s in seq]})
                if n <= 3:
                    cases.append({'root': root, 'wrap': 'pathroot', 'steps': [list(s) for s in seq]})
    return cases


# literals that happen to equal one of the internal operation codes ('P', '.', '[', '(', 'x', 'X', '+', ...), in every argument position
OPCODE_NAMES = ['P', 'x', 'X', 'S', 'T']
OPCODE_STRS = ["'P'", "'.'", "'['", "'('", "'x'", "'X'", "'+'", "'~'", "'_'"]


def gen_opcode_literals():
    steps = [['.', n] for n in OPCODE_NAMES] + [['[', a] for a in OPCODE_STRS] + [['(', a, ''] for a in OPCODE_STRS[:4]] + [['(', '', 'P=1'], ['x']]
    cases = []
    for root in ('T', 'S'):
        for n in (1, 2):
            for seq in itertools.product(steps, repeat=n):
                if root == 'S' and seq[0][0] == '(':
                    continue
                cases.append({'root': root, 'wrap': 't', 'steps': [list(x) for x in seq]})
    psteps = [['P', a] for a in OPCODE_STRS] + [['.', 'P'], ['[', "'P'"], ['x']]
    for n in (1, 2, 3):
        for seq in itertools.product(psteps, repeat=n):
            if n == 3 and not any(x[0] != 'P' for x in seq):
                continue
            cases.append({'root': 'T', 'wrap': 'path', 'steps': [list(x) for x in seq]})
    return cases


# ---------------------------------------------------------------------------
# sequence laws

SEQ_STEPS = [['P', "'a'"], ['P', '0'], ['.', 'b'], ['[', "'k'"], ['x'], ['.', 'a'], ['[', "'a'"]]    # 'a' as a Path segment, an attribute and an item


import pickle as _pickle
import copy as _copy


def steps_tuple(p):
    ops = ops_of(p)
    return tuple(zip(ops[1::2], ops[2::2]))


def run_seqlaws(case):
    steps = case['steps']
    p = build_expr({'root': 'T', 'wrap': 'path', 'steps': steps})
    ref = steps_tuple(p)      # one (op, arg) per step in construction order
    n = len(steps)
    where = {'path': repr(p)}
    if len(ref) != n:
        return R({'expected': '%d steps' % n, 'observed': repr(ref), **where}, 'build')
    if len(p) != n:
        return R({'expected': 'len %d' % n, 'observed': 'len %r' % len(p), **where}, 'len')
    if tuple(p.items()) != ref or tuple(p.values()) != tuple(a for _, a in ref):
        return R({'expected': 'items %r' % (ref,), 'observed': 'items %r values %r' % (p.items(), p.values()), **where}, 'items')
    checked = 0
    for i in range(-7, 8):
        try:
            want = ('ok', (ref[i],))
        except IndexError:
            want = ('IndexError',)
        try:
            q = p[i]
            got = ('ok', steps_tuple(q)) if isinstance(q, Path) else ('notpath', repr(q))
        except IndexError:
            got = ('IndexError',)
        except Exception as e:
            got = ('exc', repr(e))
        checked += 1
        if got != want:
            return R({'expected': 'p[%d] -> %r' % (i, want), 'observed': repr(got), **where}, 'index', sig='Path.__getitem__:index')
    bounds = [None] + list(range(-n, n + 1))
    for a in bounds:
        for b in bounds:
            for c in (None, 1, 2, 3, -1, -2):
                want = ref[a:b:c]
                try:
                    q = p[a:b:c]
                    got = steps_tuple(q)
                except Exception as e:
                    got = ('exc', repr(e))
                checked += 1
                if got != want:
                    return R({'expected': 'p[%r:%r:%r] -> %r' % (a, b, c, want), 'observed': repr(got), **where}, 'slice', sig='Path.__getitem__:slice')
                if c in (None, 2) and (a is None or b is None or len(want) == 0):
                    # a slice is a Path like any other: it prints, pickles and copies
                    try:
                        back = [steps_tuple(eval(repr(q), dict(NS))), steps_tuple(_pickle.loads(_pickle.dumps(q))), steps_tuple(_copy.deepcopy(q))]
                    except Exception as e:
                        back = 'raised %r' % (e,)
                    if back != [want, want, want]:
                        return R({'expected': 'p[%r:%r:%r] = %r round-trips through repr / pickle / deepcopy' % (a, b, c, q), 'observed': repr(back), **where},
                                 'slice-roundtrip')
    # prefixes / startswith / equality / concatenation
    for k in range(0, n + 1):
        pre = build_expr({'root': 'T', 'wrap': 'path', 'steps': steps[:k]})
        suf = build_expr({'root': 'T', 'wrap': 'path', 'steps': steps[k:]})
        if not p.startswith(pre):
            return R({'expected': 'startswith(%r) is True' % (pre,), 'observed': 'False', **where}, 'startswith')
        cat = Path(pre, suf)
        if steps_tuple(cat) != ref or not (cat == p) or (cat != p):
            return R({'expected': 'Path(%r, %r) == p' % (pre, suf), 'observed': repr(cat), **where}, 'concat')
        # joining leaves its operands as they were (a prefix that is kept and joined again), whatever is appended
        cat2 = Path(pre, 'appended', suf)
        cat3 = Path(pre, T['again'])
        if steps_tuple(pre) != ref[:k] or steps_tuple(suf) != ref[k:] or steps_tuple(cat) != ref or steps_tuple(cat3) != ref[:k] + (('[', 'again'),):
            return R({'expected': 'Path(pre, ...) builds a new Path; pre stays %r, suf %r, the first join %r' % (ref[:k], ref[k:], ref),
                      'observed': 'pre %r, suf %r, first join %r, third %r' % (steps_tuple(pre), steps_tuple(suf), steps_tuple(cat), steps_tuple(cat3)), **where},
                     'operand-mutated')
        if k < n and (pre == p or not (pre != p)):
            return R({'expected': 'strict prefix %r != p' % (pre,), 'observed': 'compares equal', **where}, 'eq')
        checked += 3
    for other in case['others']:
        q = build_expr({'root': 'T', 'wrap': 'path', 'steps': other})
        qref = steps_tuple(q)
        want = ref[:len(qref)] == qref
        if p.startswith(q) != want:
            return R({'expected': 'startswith(%r) is %r' % (q, want), 'observed': repr(p.startswith(q)), **where}, 'startswith')
        if (p == q) != (ref == qref):
            return R({'expected': '(p == %r) is %r' % (q, ref == qref), 'observed': repr(p == q), **where}, 'eq')
        checked += 2
    if n and steps[0][0] == 'P' and isinstance(ev(steps[0][1]), str):
        if not p.startswith(ev(steps[0][1])):
            return R({'expected': 'startswith(first segment text) True', 'observed': 'False', **where}, 'startswith')
    return R(None, 'ok', nontrivial=n > 0, steps=checked, tags={st[0] for st in steps})


def gen_seqlaws(tier):
    maxn = 4 if tier == 'quick' else 5
    allp = []
    for n in range(0, maxn + 1):
        for seq in itertools.product(SEQ_STEPS, repeat=n):
            allp.append([list(s) for s in seq])
    cases = []
    short = [s for s in allp if len(s) <= 2]
    for s in allp:
        cases.append({'steps': s, 'others': short})
    return cases


# ---------------------------------------------------------------------------
# composition law

def run_compose(case):
    kinds, leaf, shared, segs, k = case
    kinds = kinds.split(',') if kinds else []
    t = c01.build(kinds, leaf, shared, False)
    p, q = Path(*segs[:k]), Path(*segs[k:])

    def out(f):
        try:
            return ('ok', f())
        except PathAccessError as e:
            return ('pae', type(e.exc).__name__)
        except Exception as e:
            return ('exc', type(e).__name__)
    whole = out(lambda: glom(t, Path(p, q)))
    parts = out(lambda: glom(glom(t, p), q))
    def same(a, b):
        # fetching a method creates a new bound-method object each time: same name on the same owner is the same result
        if a is not b and hasattr(a, '__self__') and hasattr(b, '__self__'):
            return getattr(a, '__name__', 0) == getattr(b, '__name__', 1) and a.__self__ is b.__self__
        return a is b
    ok = (whole[0] == parts[0]) and (same(whole[1], parts[1]) if whole[0] == 'ok' else whole[1] == parts[1])
    if not ok:
        return R({'expected': 'glom(glom(t,p),q) = %r' % (parts,), 'observed': 'glom(t, Path(p,q)) = %r' % (whole,),
                  'p': repr(p), 'q': repr(q)}, 'compose')
    return R(None, whole[0], nontrivial=len(segs) > 0, steps=len(segs) + 1)


def gen_compose(tier):
    cases = []
    base = c01.gen_cases('quick')
    for kinds, leaf, shared, segs in base:
        if tier == 'quick' and (len(segs) > 3 or leaf not in ('none', 'edict') or shared):
            continue
        for k in range(0, len(segs) + 1):
            cases.append([kinds, leaf, shared, segs, k])
    return cases


# ---------------------------------------------------------------------------
# repr must not depend on which equal-but-distinct expression was printed first (history, forked child per order)

EQUAL_GROUPS = [["T[1]", "T[1.0]", "T[True]"], ["T[0]", "T[0.0]", "T[False]"], ["T[(1, 2)]", "T[(1.0, 2.0)]"], ["T['a'][1:2]", "T['a'][1.0:2.0]"],
                ["Path('a', 1)", "Path('a', 1.0)", "Path('a', True)"], ["S[1]", "S[True]"], ["T.a[0]", "T.a[False]"]]


def run_repr_history(case):
    import os
    import pickle as pk
    order = case

    def work():
        out = []
        for src in order:
            x = eval(src, dict(NS))
            out.append((src, repr(x), repr(struct(eval(repr(x), dict(NS)))), repr(struct(x))))
        return out
    r, w = os.pipe()
    pid = os.fork()
    if pid == 0:
        try:
            os.close(r)
            with os.fdopen(w, 'wb') as f:
                try:
                    f.write(pk.dumps(work()))
                except BaseException as e:
                    f.write(pk.dumps([('child-error', repr(e), '', 'x')]))
        finally:
            os._exit(0)
    os.close(w)
    with os.fdopen(r, 'rb') as f:
        res = pk.loads(f.read())
    os.waitpid(pid, 0)
    for src, rx, sy, sx in res:
        if sy != sx:
            return R({'expected': 'eval(repr(%s)) has the structure %s' % (src, sx), 'observed': 'repr is %s, which evaluates to %s' % (rx, sy),
                      'printed_in_this_order': order}, 'repr-history')
    return R(None, 'ok', nontrivial=len(order) > 1, steps=len(order))


def gen_repr_history(tier):
    cases = []
    for g in EQUAL_GROUPS:
        for n in range(1, len(g) + 1):
            for order in itertools.permutations(g, n):
                cases.append(list(order))
    return cases


def subs(tier, only=None):
    from ..engine import fast_tracebacks
    fast_tracebacks()
    out = []
    if only in (None, 'roundtrip'):
        out.append(Sub('roundtrip', gen_roundtrip(tier), run_roundtrip,
                       rule='case = (root T/S/A, bare or Path, step sequence); non-trivial = at least one step',
                       min_nontrivial=1000, min_outcomes=1,
                       required_tags=['.', '[', '(', 'x', 'X', 'P', 'T', 'S', 'A', 't', 'path']))
    if only in (None, 'opcode-literals'):
        out.append(Sub('opcode-literals', gen_opcode_literals(), run_roundtrip,
                       rule='case = expressions of 1-2 steps (Paths: 1-3) whose attribute names / keys / arguments / Path segments equal the internal operation codes '
                            "('P', '.', '[', '(', 'x', 'X', '+'): same round-trip oracle as roundtrip", min_nontrivial=300, min_outcomes=1, case_timeout=20))
    if only in (None, 'repr-history'):
        out.append(Sub('repr-history', gen_repr_history(tier), run_repr_history,
                       rule='case = ordered selection from a group of expressions whose arguments are equal but distinct (1 / 1.0 / True ...), printed in that '
                            'order in one pristine process: every repr must still evaluate back to its own expression', min_nontrivial=10, min_outcomes=1))
    if only in (None, 'seqlaws'):
        out.append(Sub('seqlaws', gen_seqlaws(tier), run_seqlaws,
                       rule='case = Path of length 0..N over 5 step kinds; every index in [-7,7], every in-range slice triple, '
                            'every prefix split and every path of length <= 2 as comparison partner',
                       min_nontrivial=100, min_outcomes=1))
    if only in (None, 'compose'):
        out.append(Sub('compose', gen_compose(tier), run_compose,
                       rule='case = (C01 target, segment list, split point)', min_nontrivial=1000, min_outcomes=2))
    return out
