"""C14 - Wildcards enumerate children / descendants once, tolerate misses, terminate.

Enumerated: every rooted object graph with N container nodes (kinds dict, list,
tuple, attribute object) and two leaves, every container holding an ordered
list of <= 2 children chosen among ALL nodes (trees, DAGs, self loops, longer
cycles), reachable graphs only, under several kind assignments; x ~25 wildcard
paths in text spelling plus Path / T spellings.  Oracle: a breadth-first walk
with an identity-based visited set; entries compared by identity.
A second sub-check drives Assign / Delete through wildcards on tree-shaped
targets against a plain loop.
"""
import itertools

from glom import glom, Path, T, S, Spec, Val, PathAccessError, assign, delete, Assign, Delete, GlomError

from .. import objs
from ..engine import R, Sub
from .c01 import ref_step

PROPERTY = 'C14'
ASSUMPTIONS = [
    'children: mapping values in order, attribute values in __dict__ order, list/tuple items; strings and ints have none',
    '** lists every reference to a descendant (a child referenced twice appears twice) but expands every container, the root included, once',
    'sets and containers whose element access raises are exercised in a fixed side menu, not in the graph enumeration',
]

LEAVES = {'L0': 7, 'L1': 's'}
KIND_SETS_Q = [('dict', 'list', 'obj'), ('list', 'dict', 'tuple'), ('obj', 'tuple', 'dict'), ('tuple', 'obj', 'list'),
               ('dict', 'dict', 'dict'), ('list', 'list', 'list')]

TEXT_PATHS = ['*', '**', '*.*', '*.**', '**.*', '**.**', 'a.*', 'a.**', '*.a', '**.a', '*.0', '**.0', '1.*', '0.**',
              'a.*.a', '*.a.*', '**.a.*', '*.*.a', '*.*.*', '**.*.a', 'a.*.0', '*.0.*', '**.**.a', '*.**.0', '**.0.**',
              'b.*.zz', '*.zz', '**.zz.*']
OTHER_PATHS = [  # (spelling, step list); step = '*', '**', ['P', seg], ['.', name], ['[', key]
    ('path', ['*']), ('path', [['P', 'a'], '*', ['P', 'a']]), ('path', ['**', ['P', 0]]), ('path', ['**', '*']),
    ('T', ['*']), ('T', ['**']), ('T', ['*', ['[', 'a']]), ('T', ['**', ['.', 'a']]), ('T', ['*', ['[', 0]]),
    ('T', [['[', 'a'], '**']), ('T', ['*', '*']),
    # the same T expressions rooted at a scope variable: glom(None, S['v']..., scope={'v': target})
    ('S', ['*']), ('S', ['**']), ('S', ['*', ['[', 'a']]), ('S', ['**', ['.', 'a']]), ('S', ['*', ['[', 0]]), ('S', [['[', 'a'], '**']), ('S', ['*', '*']),
    ('S', ['*', ['[', 'a'], '*']),
]


class Unbuildable(Exception):
    pass


def build_graph(nodes):
    """nodes: list of [kind, [refs]]; ref = int (node index) or 'L0'/'L1'. Node 0 is the root."""
    built = {}
    in_progress = set()

    def get(ref):
        if isinstance(ref, str):
            return LEAVES[ref]
        if ref in built:
            return built[ref]
        kind, refs = nodes[ref]
        if kind == 'tuple':
            if ref in in_progress:
                raise Unbuildable('cycle through tuples only')
            in_progress.add(ref)
            t = tuple(get(r) for r in refs)
            in_progress.discard(ref)
            built[ref] = t
            return t
        raise AssertionError

    # mutable shells first
    for i, (kind, refs) in enumerate(nodes):
        if kind == 'dict':
            built[i] = {}
        elif kind == 'list':
            built[i] = []
        elif kind == 'obj':
            built[i] = objs.Obj()
    for i, (kind, refs) in enumerate(nodes):
        if kind == 'tuple':
            get(i)
    for i, (kind, refs) in enumerate(nodes):
        if kind == 'dict':
            for name, r in zip('ab', refs):
                built[i][name] = get(r)
        elif kind == 'list':
            built[i].extend(get(r) for r in refs)
        elif kind == 'obj':
            for name, r in zip('ab', refs):
                setattr(built[i], name, get(r))
    return built[0]


def children(v):
    if isinstance(v, dict):
        return list(v.values())
    if isinstance(v, (list, tuple)):
        return list(v)
    if isinstance(v, objs.Obj):
        return list(v.__dict__.values())
    if isinstance(v, (set, frozenset)):
        return list(v)
    if isinstance(v, FailsMidway):
        return list(v.items)        # what could be read before the iteration failed
    return []


def descend(cur):
    seen = {id(cur)}
    queue = list(children(cur))
    i = 0
    while i < len(queue):
        item = queue[i]
        i += 1
        if id(item) not in seen:
            seen.add(id(item))
            queue.extend(children(item))
        if len(queue) > 100000:
            raise RuntimeError('reference queue explosion')
    return [cur] + queue


class Miss(Exception):
    pass


def ref_eval(cur, steps):
    for i, st in enumerate(steps):
        if st in ('*', '**'):
            entries = children(cur) if st == '*' else descend(cur)
            out = []
            for e in entries:
                try:
                    out.append(ref_eval(e, steps[i + 1:]))
                except Miss:
                    pass
            return out
        try:
            cur = ref_step(cur, st[0], st[1])
        except Exception as e:
            raise Miss(repr(e))
    return cur


def same_shape(a, b, depth):
    """nested lists (depth levels), leaves compared by identity"""
    if depth == 0:
        return a is b
    if type(a) is not list or type(b) is not list or len(a) != len(b):
        return False
    return all(same_shape(x, y, depth - 1) for x, y in zip(a, b))


def text_steps(text):
    return [s if s in ('*', '**') else ['P', s] for s in text.split('.')]


def mk_spec(spelling, steps):
    if spelling == 'text':
        return '.'.join(s if isinstance(s, str) else s[1] for s in steps)
    if spelling == 'path':
        parts = []
        for s in steps:
            parts.append(T.__star__() if s == '*' else T.__starstar__() if s == '**' else s[1])
        return Path(*parts)
    t = T if spelling != 'S' else S['v']
    for s in steps:
        if s == '*':
            t = t.__star__()
        elif s == '**':
            t = t.__starstar__()
        elif s[0] == '.':
            t = getattr(t, s[1])
        else:
            t = t[s[1]]
    return t


def show(v, depth):
    if depth == 0:
        return '%s@%x' % (type(v).__name__, id(v) % 0xfffff)
    if type(v) is not list:
        return repr(v)[:60]
    return '[' + ', '.join(show(x, depth - 1) for x in v) + ']'


def check_paths(target, where, paths):
    n = 0
    outcomes = set()
    for spelling, steps in paths:
        depth = sum(1 for s in steps if s in ('*', '**'))
        try:
            want = ('ok', ref_eval(target, steps))
        except Miss as m:
            want = ('miss', None)
        spec = mk_spec(spelling, steps)
        try:
            got = ('ok', glom(target, spec) if spelling != 'S' else glom(None, spec, scope={'v': target}))
        except PathAccessError as e:
            got = ('miss', None)
        except Exception as e:
            got = ('exc', repr(e))
        n += 1
        outcomes.add(want[0])
        ok = want[0] == got[0] and (want[0] != 'ok' or same_shape(want[1], got[1], depth))
        if not ok:
            return n, R({'expected': '%s %s' % (want[0], show(want[1], depth) if want[0] == 'ok' else ''),
                         'observed': '%s %s' % (got[0], show(got[1], depth) if got[0] == 'ok' else got[1]),
                         'spec': repr(spec), **where}, 'mismatch')
    return n, None


ALL_PATHS = [('text', text_steps(t)) for t in TEXT_PATHS] + OTHER_PATHS


def run_graph(case):
    try:
        target = build_graph(case)
    except Unbuildable:
        return R(None, 'unbuildable', nontrivial=False)
    n, viol = check_paths(target, {'graph': case}, ALL_PATHS)
    if viol is not None:
        return viol
    cyc = is_cyclic(case)
    return R(None, 'cyclic' if cyc else 'acyclic', nontrivial=True, steps=n, tags={k for k, _ in case})


def is_cyclic(nodes):
    color = {}

    def visit(i):
        color[i] = 1
        for r in nodes[i][1]:
            if isinstance(r, int):
                if color.get(r) == 1:
                    return True
                if r not in color and visit(r):
                    return True
        color[i] = 2
        return False
    return visit(0)


def reachable(structure):
    seen = {0}
    stack = [0]
    while stack:
        i = stack.pop()
        for r in structure[i]:
            if isinstance(r, int) and r not in seen:
                seen.add(r)
                stack.append(r)
    return len(seen) == len(structure)


def gen_graphs(tier):
    n = 3
    opts = list(range(n)) + ['L0', 'L1']
    child_lists = [[]] + [[a] for a in opts] + [[a, b] for a in opts for b in opts]
    structures = [s for s in itertools.product(child_lists, repeat=n) if reachable(s)]
    kind_sets = KIND_SETS_Q if tier == 'quick' else list(itertools.product(['dict', 'list', 'tuple', 'obj'], repeat=n))
    cases = []
    for kinds in kind_sets:
        for s in structures:
            cases.append([[k, list(refs)] for k, refs in zip(kinds, s)])
    if tier != 'quick':
        # four containers: structures with at most one two-child node keep the space tractable
        n = 4
        opts = list(range(n)) + ['L0']
        singles = [[]] + [[a] for a in opts]
        doubles = [[a, b] for a in range(n) for b in opts]
        for two_at in range(n):
            menus = [doubles if i == two_at else singles for i in range(n)]
            for s in itertools.product(*menus):
                if reachable(s):
                    for kinds in (('dict', 'list', 'obj', 'tuple'), ('list', 'dict', 'list', 'dict'), ('obj', 'obj', 'dict', 'list')):
                        cases.append([[k, list(refs)] for k, refs in zip(kinds, s)])
    return cases


# ---------------------------------------------------------------------------
# fixed side menu: strings, sets, raising containers

class BadDict(dict):
    __slots__ = ()

    def __getitem__(self, k):
        if k == 'b':
            raise RuntimeError('element access raises')
        return dict.__getitem__(self, k)


class ZeroLen(objs.Obj):
    """falsy (len() == 0) although it has attribute children"""
    def __len__(self):
        return 0


class FalseBool(objs.Obj):
    def __bool__(self):
        return False


class FailsMidway:
    """an iterable (no __dict__, no keys) that yields two children and then fails: the readable children stay"""
    __slots__ = ('items',)

    def __init__(self, *items):
        self.items = items

    def __iter__(self):
        for x in self.items:
            yield x
        raise RuntimeError('cursor lost')


class Rows(list):
    """an ordinary user subclass (instances have a __dict__): still a sequence, its children are its items"""


class Pair(tuple):
    pass


class Bag(set):
    pass


def side_targets():
    inner = {'a': 1}
    rows = Rows([1, {'a': 2}])
    rows.note = 'an attribute next to the items'
    return {
        'user-subclasses-of-sequences': {'a': rows, 'b': Pair((3, [4])), 'c': [Rows([{'a': 5}])], 'd': Bag([6])},
        'user-subclass-root': Rows([{'a': 1}, Rows([2])]),
        'iterable-failing-midway': {'a': FailsMidway({'a': 1}, 2), 'b': [3, FailsMidway(4)], 'c': {'a': 5}},
        'falsy-objects-with-children': {'a': ZeroLen(a=1, k={'a': 2}), 'b': [FalseBool(a=3), ZeroLen()], 'c': FalseBool(k=ZeroLen(a=[4]))},
        'falsy-object-root': ZeroLen(a={'a': 1}, b=FalseBool(a=2)),
        'str-leaves': {'a': 'xyz', 'b': ['pq', {'a': 'r'}]},
        'singleton-set': {'a': {5}, 'b': [frozenset(['q'])]},
        'shared-twice': [inner, inner, {'a': inner}],
        'empty': {},
        'scalar': 5,
        'none': None,
        'deep': {'a': {'a': {'a': {'a': {'a': 1}}}}},
    }


def run_side(name):
    target = side_targets()[name]
    n, viol = check_paths(target, {'target': name}, ALL_PATHS)
    if viol is not None:
        return viol
    return R(None, name, nontrivial=True, steps=n)


def run_bad(_):
    t = {'a': BadDict(a=1, b=2, c=3), 'b': [1]}
    try:
        got = glom(t, 'a.*')
    except Exception as e:
        return R({'expected': 'entries whose access raises are skipped ([1, 3])', 'observed': repr(e)}, 'bad')
    if got != [1, 3]:
        return R({'expected': '[1, 3]', 'observed': repr(got)}, 'bad')
    return R(None, 'bad', steps=1)


# ---------------------------------------------------------------------------
# assign / delete through wildcards (tree-shaped targets)

def tree_targets():
    return {
        'list-of-dicts': lambda: {'a': [{'k': 1, 'x': 0}, {'k': 2}, {'z': 3}]},
        'dict-of-dicts': lambda: {'a': {'p': {'k': 1}, 'q': {'k': 2, 'y': 0}}},
        'list-of-lists': lambda: {'a': [[1, 2], [3, 4], [5, 6]]},
        'objs': lambda: {'a': [objs.Obj(k=1), objs.Obj(k=2, y=0)]},
        'nested': lambda: {'a': [{'b': [{'k': 1}, {'k': 2}]}, {'b': [{'k': 3}]}]},
        'empty': lambda: {'a': []},
        'three-levels': lambda: {'g': [[[1, {'k': 2}], [3]], [[4]]], 'h': {'p': {'q': {'r': {'k': 1}}}}},
        'rows-of-dicts': lambda: {'g': [[{'k': 1}, {'k': 2}], [{'k': 3}]]},
        'mixed-kinds': lambda: {'a': [{'0': 'x', 'k': 1}, [10, 20], objs.Obj(k=5), {'0': 'y'}]},
        'mixed-kinds-2': lambda: {'a': [[10, 20], {'0': 'x', 'k': 1}, {'1': 'z'}]},
        'shared-list': lambda: (lambda l: {'a': l, 'b': l, 'c': [9, 8]})([1, 2, 3]),
        'shared-dict': lambda: (lambda d: {'a': d, 'b': {'k': 0}, 'c': d})({'k': 1, 'j': 2}),
        'shared-rows': lambda: (lambda r: {'a': [r, [5, 6], r]})([1, 2, 3, 4]),
        'miss-in-the-middle': lambda: {'a': [{'k': 1}, {'z': 0}, {'k': 3}, [7], {'k': 5}]},
        # containers that are EQUAL but distinct objects (every one of them is an entry of its own), some reached twice
        'equal-twins': lambda: (lambda shared: {'eu': {'cfg': {}, 'b': {'k': 1}}, 'us': {'cfg': {}, 'b': {'k': 1}}, 'rows': [{'cfg': {}}, {'cfg': {}}, shared, shared],
                                                'a': [{'k': 1}, {'k': 1}]})({'cfg': {}}),
        'keys-named-x': lambda: {'x': [[1, 2], [3, 4]], 'X': {'x': [{'k': 1}, {'k': 2}], 'X': [[5, 6], [7]]}, 'a': {'x': {'k': 1}, 'X': {'k': 2}}},
    }


MUT_PATHS = ['**.cfg.on', '**.b.k', '**.cfg', 'rows.**.cfg.on', '*.cfg.on', '*.0', '*.k', '*.1', 'x.0', 'x.1.0', 'X.x.0', 'X.x.k', 'X.X.0', 'X.X.1.0', 'a.x.k', 'a.X.k', 'a.*.k', 'a.*.0', 'a.*.1', 'a.*.b.*.k', 'a.*.n', '*.*.k', 'g.*.*.0', 'g.*.*.*.k', '*.*.*.0', 'h.*.*.*.k', 'g.*.*.k', '*.*.*.*.k', 'g.*.0']


def snapshot(v, depth=0):
    if isinstance(v, dict):
        return ('dict', tuple((k, snapshot(x)) for k, x in v.items()))
    if isinstance(v, list):
        return ('list', tuple(snapshot(x) for x in v))
    if isinstance(v, objs.Obj):
        return ('obj', tuple((k, snapshot(x)) for k, x in v.__dict__.items()))
    return ('val', repr(v))


def ref_parents(target, text):
    steps = text_steps(text)
    parents = ref_eval(target, steps[:-1])
    depth = sum(1 for s in steps[:-1] if s in ('*', '**'))
    for _ in range(depth - 1):
        parents = sum(parents, [])
    if depth == 0:
        parents = [parents]
    return parents, steps[-1][1]


def ref_mutate(target, text, op, val):
    """plain loop: resolve the parent entries with the reference wildcard walk, then act on each"""
    try:
        parents, seg = ref_parents(target, text)
    except Miss:
        if op == 'delete-ignore':
            return           # the parent itself is missing: nothing to delete
        raise
    for p in parents:
        try:
            if op == 'assign':
                if isinstance(p, dict):
                    p[seg] = val
                elif isinstance(p, list):
                    p[int(seg)] = val
                else:
                    setattr(p, seg, val)
            else:
                if isinstance(p, dict):
                    del p[seg]
                elif isinstance(p, list):
                    del p[int(seg)]
                else:
                    delattr(p, seg)
        except Exception:
            if op != 'delete-ignore':
                raise


VALUE_KINDS = ['lit', 'reads-target', 'list-literal', 'dict-literal-with-T']


def mk_mut_value(kind):
    """-> (value handed to assign, function computing the expected value from the ORIGINAL target)"""
    if kind == 'lit':
        return 'NEW', (lambda t: 'NEW')
    if kind == 'reads-target':
        # evaluated ONCE, against the target as it was before the first match was written
        return Spec(lambda t: 'seen:' + repr(snapshot(t))), (lambda t: 'seen:' + repr(snapshot(t)))
    if kind == 'list-literal':
        return ['L', 1], (lambda t: ['L', 1])
    if kind == 'dict-literal-with-T':
        return {'root-keys': T.keys(), 'n': 1} if False else {'first': Spec(lambda t: sorted(t)[0]), 'n': 1}, (lambda t: {'first': sorted(t)[0], 'n': 1})
    raise ValueError(kind)


def run_mutate(case):
    tname, text, op, style = case[:4]
    vkind = case[4] if len(case) > 4 else 'lit'
    mk = tree_targets()[tname]
    ref_t, t = mk(), mk()
    value, expect = mk_mut_value(vkind)
    try:
        ref_val = expect(ref_t)
        try:
            ref_mutate(ref_t, text, op, ref_val)
            want = ('ok', snapshot(ref_t))
        except RecursionError:
            raise
        except Exception as e:
            want = ('err', type(e).__name__)
    except RecursionError:
        return R(None, 'unbuildable', nontrivial=False)
    try:
        if op == 'assign':
            res = assign(t, text, value) if style == 'func' else glom(t, Assign(text, value))
        elif op == 'delete':
            res = delete(t, text) if style == 'func' else glom(t, Delete(text))
        else:
            res = delete(t, text, ignore_missing=True) if style == 'func' else glom(t, Delete(text, ignore_missing=True))
        got = ('ok', snapshot(t))
        if res is not t:
            return R({'expected': 'the same object is returned', 'observed': repr(res), 'case': case}, 'identity')
    except Exception as e:
        got = ('err', type(e).__name__)
    if want[0] != got[0] or (want[0] == 'ok' and want[1] != got[1]):
        return R({'expected': repr(want)[:600], 'observed': repr(got)[:600], 'case': case}, 'mutate')
    if op == 'assign' and want[0] == 'ok':
        # "for m in matches: m[k] = val": one value object, shared by every match
        parents, seg = ref_parents(t, text)
        vals = [p[seg] if isinstance(p, dict) else p[int(seg)] if isinstance(p, list) else getattr(p, seg) for p in parents]
        if len(set(id(v) for v in vals)) > 1:
            return R({'expected': 'every match receives the same value object', 'observed': '%d distinct objects' % len(set(id(v) for v in vals)), 'case': case}, 'value-per-match')
    return R(None, '%s:%s' % (op, want[0]), nontrivial=want[0] == 'ok', steps=1, tags={op, vkind})


def gen_mutate(tier):
    out = []
    for t in tree_targets():
        for p in MUT_PATHS:
            for style in ('func', 'spec'):
                out.append([t, p, 'delete', style, 'lit'])
                out.append([t, p, 'delete-ignore', style, 'lit'])
                for vk in VALUE_KINDS:
                    out.append([t, p, 'assign', style, vk])
    return out


# ---------------------------------------------------------------------------
# wildcard texts first seen after the path-text cache has filled up (history; runs in a forked child)

def run_overflow(case):
    import os
    import pickle
    n_fill, texts = case

    def work():
        t = {'a': {'x': {'z': 1}, 'y': {'z': 2, 'w': [3]}}, 'z': 0}
        for i in range(n_fill):
            glom({}, 'overflow%d.q' % i, default=None)
        out = []
        for text in texts:
            steps = text_steps(text)
            try:
                want = ('ok', repr(glom(t, mk_spec('T', [s if isinstance(s, str) else ['[', s[1]] for s in steps]))))
            except Exception as e:
                want = ('exc', type(e).__name__)
            try:
                got = ('ok', repr(glom(t, text)))
            except Exception as e:
                got = ('exc', type(e).__name__)
            out.append((text, want, got))
        return out
    r, w = os.pipe()
    pid = os.fork()
    if pid == 0:
        try:
            os.close(r)
            with os.fdopen(w, 'wb') as f:
                try:
                    f.write(pickle.dumps(work()))
                except BaseException as e:
                    f.write(pickle.dumps([('child', ('err', repr(e)), ('ok', ''))]))
        finally:
            os._exit(0)
    os.close(w)
    with os.fdopen(r, 'rb') as f:
        res = pickle.loads(f.read())
    os.waitpid(pid, 0)
    for text, want, got in res:
        if want != got:
            return R({'expected': 'text spelling %r equals the T spelling: %r' % (text, want), 'observed': repr(got), 'path_strings_parsed_before': n_fill}, 'overflow')
    return R(None, 'ok', steps=len(res) + n_fill)


# ---------------------------------------------------------------------------
# a step whose key is itself a spec, directly after a wildcard: evaluated against each entry separately

SPECKEY_TARGETS = {
    'rows-pick-own-key': lambda: {'rows': [{'pick': 'a', 'a': [1], 'b': [10]}, {'pick': 'b', 'a': [2], 'b': [20]}, {'pick': 'zz', 'a': [3]}, {'a': [4]}]},
    'rows-same-key': lambda: {'rows': [{'pick': 'a', 'a': [1]}, {'pick': 'a', 'a': [2]}]},
    'nested': lambda: {'rows': {'u': {'pick': 'a', 'a': {'pick': 'b', 'b': [7]}}, 'v': {'pick': 'q'}}},
    'lists-pick-index': lambda: {'rows': [[1, 'x', 'y'], [2, 'x', 'y'], [9, 'x']]},
}
def _pick_or_nope(e):
    return e['pick'] if isinstance(e, dict) and 'pick' in e else 'nope'


SPECKEY_KEYS = {   # name -> (spec in key position, reference: entry -> key)
    'T-pick': (lambda: T['pick'], lambda e: e['pick']),
    'Spec-pick': (lambda: Spec('pick'), lambda e: e['pick']),
    'Val-a': (lambda: Val('a'), lambda e: 'a'),
    'T-0': (lambda: T[0], lambda e: e[0]),
    # (an exception of the function itself is the caller's and passes through the wildcard: the function here never raises)
    'callable-Spec': (lambda: Spec(_pick_or_nope), lambda e: _pick_or_nope(e)),
}


def run_speckey(case):
    tname, kname, wild, spelling, tail = case
    target = SPECKEY_TARGETS[tname]()
    mk, key_of = SPECKEY_KEYS[kname]
    entries = children(target['rows']) if wild == '*' else descend(target['rows'])
    want = []
    for e in entries:
        try:
            v = e[key_of(e)]
            if tail:
                v = v[0]
            want.append(v)
        except Exception:
            pass
    star = (lambda t: t.__star__()) if wild == '*' else (lambda t: t.__starstar__())
    if spelling == 'T':
        spec = star(T['rows'])[mk()]
        spec = spec[0] if tail else spec
    elif spelling == 'S':
        spec = star(S['v']['rows'])[mk()]
        spec = spec[0] if tail else spec
    else:
        inner = star(T)[mk()]
        spec = Path('rows', inner[0] if tail else inner)
    try:
        got = glom(target, spec) if spelling != 'S' else glom(None, spec, scope={'v': target})
    except Exception as e:
        return R({'expected': show(want, 1), 'observed': repr(e), 'spec': repr(spec), 'target': tname}, 'speckey-exc')
    if not same_shape(want, got, 1):
        return R({'expected': show(want, 1), 'observed': show(got, 1), 'spec': repr(spec), 'target': tname}, 'speckey')
    return R(None, 'n=%d' % min(len(want), 3), nontrivial=len(want) > 0, steps=len(entries), tags={kname, wild})


def gen_speckey():
    return [[t, k, w, sp, tail] for t in sorted(SPECKEY_TARGETS) for k in sorted(SPECKEY_KEYS) for w in ('*', '**') for sp in ('T', 'S', 'path')
            for tail in (False, True)]


# ---------------------------------------------------------------------------
# arithmetic / unary steps after a wildcard (entries that do not support them are dropped) and equal-but-differently-typed tails

def run_tail(case):
    name = case
    import operator as op_
    rows_seq = [[10, 11, 12], (20, 21), 'ab', {1: 'one', True: 'yes'}, {1.0: 'float-key'}, 5, None, [30]]
    nums = [1, 'a', None, 2.5, [3], True]
    MENU = {
        'neg-after-star': (nums, lambda: -T.__star__(), lambda e: -e),
        'invert-after-star': (nums, lambda: ~T.__star__(), lambda e: ~e),
        'neg-after-starstar': ({'a': 1, 'b': {'c': 2.5, 'd': 'x'}}, lambda: -T.__starstar__(), lambda e: -e),
        'mul-after-star': (nums, lambda: T.__star__() * 2, lambda e: e * 2),
        'mul-float-after-star': (nums, lambda: T.__star__() * 2.0, lambda e: e * 2.0),
        'floordiv-after-star': (nums, lambda: T.__star__() // 2, lambda e: e // 2),
        'floordiv-float-after-star': (nums, lambda: T.__star__() // 2.0, lambda e: e // 2.0),
        'index-1': (rows_seq, lambda: T.__star__()[1], lambda e: e[1]),
        'index-1.0': (rows_seq, lambda: T.__star__()[1.0], lambda e: e[1.0]),
        'index-True': (rows_seq, lambda: T.__star__()[True], lambda e: e[True]),
        'index-0': (rows_seq, lambda: T.__star__()[0], lambda e: e[0]),
        'index-False': (rows_seq, lambda: T.__star__()[False], lambda e: e[False]),
        'index-0.0': (rows_seq, lambda: T.__star__()[0.0], lambda e: e[0.0]),
        # leaves are entries like any other: steps that succeed on strings / numbers succeed after ** too
        'index-0-after-starstar-strings': ({'a': 'xy', 'b': ['pq', 3, b'zw']}, lambda: T.__starstar__()[0], lambda e: e[0]),
        'attr-real-after-starstar': ({'a': 1, 'b': [2.5, 'x', True]}, lambda: T.__starstar__().real, lambda e: e.real),
        'text-real-after-starstar': ({'a': 1, 'b': [2.5, 'x', None]}, lambda: Path.from_text('**.real'), lambda e: e.real),
        'attr-after-star-scalars': ([1, 2.5, 'x', None], lambda: T.__star__().real, lambda e: e.real),
    }
    return MENU[name] if isinstance(name, str) else None


TAIL_NAMES = ['neg-after-star', 'invert-after-star', 'neg-after-starstar', 'mul-after-star', 'mul-float-after-star', 'floordiv-after-star',
              'floordiv-float-after-star', 'index-1', 'index-1.0', 'index-True', 'index-0', 'index-False', 'index-0.0',
              'index-0-after-starstar-strings', 'attr-real-after-starstar', 'text-real-after-starstar', 'attr-after-star-scalars']


def eval_tail(name):
    target, mk, fn = run_tail(name)
    entries = children(target) if 'starstar' not in name else descend(target)
    want = []
    for e in entries:
        try:
            want.append(fn(e))
        except Exception:
            pass
    try:
        got = glom(target, mk())
    except Exception as e:
        return want, 'raised %r' % (e,)
    return want, got


def run_tail_history(case):
    """case = sequence of tail names evaluated one after the other in ONE process (forked child): each must give what it gives alone"""
    from .c13 import in_child

    def work():
        out = []
        for name in case:
            want, got = eval_tail(name)
            ok = isinstance(got, list) and len(got) == len(want) and all(type(a) is type(b) and a == b for a, b in zip(got, want))
            out.append((name, ok, repr(want)[:200], repr(got)[:200]))
        return out
    st, res = in_child(work)
    if st != 'ok':
        raise RuntimeError(res)
    for name, ok, want, got in res:
        if not ok:
            return R({'expected': '%s -> %s' % (name, want), 'observed': got, 'history': case}, 'tail')
    return R(None, 'n=%d' % len(case), nontrivial=True, steps=len(case), tags=set(case))


class _Bare:
    """an iterable object WITHOUT instance attributes: it has no attribute children (and it is not a registered container)"""
    def __iter__(self):
        return iter([1, 2])


class _WithAttrs(_Bare):
    def __init__(self):
        self.u, self.v = 'attr-u', 'attr-v'


class _LedgerError(GlomError):
    pass


def _raise_ledger(*a):
    raise _LedgerError('a GlomError of the callee, not a missing entry')


def after_wildcard_menu():
    return [
        ('bare-iterable-object-has-no-children', lambda: glom(_Bare(), '*'), []),
        ('bare-iterable-object-under-starstar', lambda: len(glom({'k': _Bare()}, '**')), 2),
        ('object-with-attributes-then-bare', lambda: (glom(_WithAttrs(), '*'), glom(_Bare(), '*')), (['attr-u', 'attr-v'], [])),
        ('bare-then-object-with-attributes', lambda: (glom(_Bare(), '*'), glom(_WithAttrs(), '*')), ([], ['attr-u', 'attr-v'])),
        ('callee-GlomError-after-star-propagates', lambda: _outcome(lambda: glom([{'f': _raise_ledger}], T.__star__()['f']())), '_LedgerError'),
        ('callee-GlomError-after-starstar-propagates', lambda: _outcome(lambda: glom({'x': {'f': _raise_ledger}}, T.__starstar__()['f']())), '_LedgerError'),
        ('callee-ValueError-after-star-propagates', lambda: _outcome(lambda: glom(['a'], T.__star__().index('zz'))), 'ValueError'),
    ]


def _outcome(f):
    try:
        return ('returned', f())
    except Exception as e:
        return [c.__name__ for c in type(e).__mro__ if c.__name__ in ('_LedgerError', 'ValueError')][0] if any(
            c.__name__ in ('_LedgerError', 'ValueError') for c in type(e).__mro__) else 'other: %r' % (e,)


def run_after_wildcard(i):
    from .c13 import in_child
    name, f, want = after_wildcard_menu()[i]
    st, got = in_child(f)
    if st != 'ok' or got != want:
        return R({'expected': repr(want), 'observed': repr(got), 'case': name}, name)
    return R(None, name, nontrivial=True, steps=1)


def gen_tail_histories():
    twins = [['index-1', 'index-1.0', 'index-True'], ['index-0', 'index-False', 'index-0.0'], ['mul-after-star', 'mul-float-after-star'],
             ['floordiv-after-star', 'floordiv-float-after-star']]
    cases = [[n] for n in TAIL_NAMES]
    for grp in twins:
        for a, b in itertools.permutations(grp, 2):
            cases.append([a, b])
            cases.append([a, b, a])
    return cases


def subs(tier, only=None):
    from ..engine import fast_tracebacks
    fast_tracebacks()
    out = [
        Sub('graphs', gen_graphs(tier), run_graph,
            rule='case = rooted graph of N containers (kinds x ordered child lists of <=2 over all nodes and leaves), all reachable '
                 'structures; every case evaluates %d wildcard paths; non-trivial = buildable graph' % len(ALL_PATHS),
            min_nontrivial=5000, min_outcomes=2, required_tags=['dict', 'list', 'tuple', 'obj'], case_timeout=10),
        Sub('side-menu', sorted(side_targets()), run_side,
            rule='fixed targets with strings, singleton sets, shared children, scalars, depth 5', min_nontrivial=5, min_outcomes=5),
        Sub('raising-container', [0], run_bad, rule='dict whose item access raises for one key', min_nontrivial=1, min_outcomes=1),
        Sub('wildcard-mutation', gen_mutate(tier), run_mutate,
            rule='case = (tree-shaped target, wildcard path, assign|delete, function|spec form) against a plain loop',
            min_nontrivial=10, min_outcomes=2, required_tags=['assign', 'delete']),
        Sub('spec-valued-step-after-wildcard', gen_speckey(), run_speckey,
            rule='case = (rows whose entries name their own key, key spec T[..] | Spec | Val | callable, * | **, T | S | Path spelling, with/without a further step): '
                 'the key is evaluated against each entry separately; entries where it or the access fails are left out',
            min_nontrivial=100, min_outcomes=3, required_tags=['T-pick', '**']),
        Sub('steps-after-wildcards-histories', gen_tail_histories(), run_tail_history,
            rule='case = sequence of 1-3 T expressions (unary / arithmetic / index step after * or **; indexes and operands that are equal but of different type: '
                 '1 / 1.0 / True) evaluated one after the other in one process: entries for which the step fails are dropped, every expression gives what it gives alone',
            min_nontrivial=30, min_outcomes=2, required_tags=['neg-after-star', 'index-1.0']),
        Sub('objects-and-callees-after-wildcards', list(range(len(after_wildcard_menu()))), run_after_wildcard,
            rule='fixed menu (each in a pristine forked child): iterable objects without instance attributes have no children - whatever was enumerated before; '
                 'an exception of a CALLED step after a wildcard (a GlomError subclass of the callee included) propagates', min_nontrivial=7, min_outcomes=7, parallel=False),
        Sub('wildcards-after-cache-overflow', [[0, ['a.*.z', '**.z', 'a.*.*']], [10050, ['a.*.z', '**.z', 'a.*.*', '*.y.w.*']], [10050, ['a.**', '*']]],
            run_overflow, rule='case = (number of distinct path strings parsed first, fresh wildcard texts): the text spelling must still equal the T spelling '
                               'once the path-text cache (bound 10000) is full; each case in a forked child', min_nontrivial=2, min_outcomes=1, parallel=False,
            case_timeout=120),
    ]
    return [s for s in out if only in (None, s.name)]
