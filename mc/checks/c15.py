"""C15 - Fold, Sum, Flatten, Merge equal plain-Python reductions and mutate no input.

Enumerated: every element sequence of length <= 3 over seven element menus (ints, floats,
lists, tuples, strs, dicts, lists nested to depth 3, plus a type-mixing menu) as list /
tuple / generator / dict-keys, plus non-iterables; x Fold(sub, init, op) for 8 inits x 3 ops,
Sum, Flatten (eager and lazy), Merge (init, op), flatten(levels 0..3, init), merge();
sub in {T, 'k'}.  Every spec OBJECT is evaluated three times (same input twice, then a
different input).  Oracle: functools.reduce / sum / chain.from_iterable / dict.update; input
snapshots; identity disjointness of results; init() call count.
"""
import functools
import itertools
import operator
from collections import OrderedDict

from glom import glom, T, Fold, Sum, Flatten, Merge, flatten, merge, FoldError, GlomError, SKIP, STOP

from ..engine import R, Sub
from ..mutref import canon

PROPERTY = 'C15'
ASSUMPTIONS = [
    'element menus as listed; inits int, float, list, tuple, str, dict, OrderedDict and a counting list factory; ops iadd, add and a logging add',
    'when the plain reduction raises, glom must raise the same class; a non-iterable target must raise FoldError',
]

MENUS = {
    'ints': lambda: [1, 2, 3],
    'floats': lambda: [0.5, 1.5, 2.0],
    'lists': lambda: [[1], [2, 3], []],
    'tuples': lambda: [(1,), (2, 3), ()],
    'strs': lambda: ['a', 'bc', ''],
    'dicts': lambda: [{'a': 1}, {'b': 2}, {'a': 3, 'c': 4}],
    'nested': lambda: [[[1], [2, [3]]], [[4]], []],
    'mixed': lambda: [1, 'a', [2]],
    'withnone': lambda: [1, None, 2],
}


class CountingInit:
    def __init__(self):
        self.calls = 0

    def __call__(self):
        self.calls += 1
        return []

    def __repr__(self):
        return 'CountingInit'


class Bag:
    """a hashable (default object hash) mutable accumulator"""
    def __init__(self):
        self.items = []

    def __iadd__(self, other):
        self.items.append(other)
        return self

    def __add__(self, other):
        b = Bag()
        b.items = self.items + [other]
        return b

    def __repr__(self):
        return 'Bag(%r)' % (self.items,)


class CountingTupleInit:
    """counts its calls and returns a HASHABLE start value"""
    def __init__(self):
        self.calls = 0

    def __call__(self):
        self.calls += 1
        return ()

    def __repr__(self):
        return 'CountingTupleInit'


OPLOG = []


def logging_add(a, b):
    OPLOG.append(1)
    return a + b


INITS = {'int': int, 'float': float, 'list': list, 'tuple': tuple, 'str': str, 'dict': dict, 'odict': OrderedDict, 'bag': Bag}
def second(a, b):
    return b          # may return None: the accumulator must become None, exactly as functools.reduce does


def keep_if_even(a, b):
    return None if (isinstance(b, int) and b % 2) else b


OPS = {'iadd': operator.iadd, 'add': operator.add, 'logadd': logging_add, 'second': second, 'noneodd': keep_if_even}


def mk_elems(menu, idxs):
    return [MENUS[menu]()[i] for i in idxs]


def mk_input(outer, menu, idxs, wrap):
    """fresh input object; wrap=True puts it under key 'k'"""
    if outer == 'scalar':
        v = [5, None, 'text'][idxs[0]]
    else:
        elems = mk_elems(menu, idxs)
        if outer == 'list':
            v = elems
        elif outer == 'tuple':
            v = tuple(elems)
        elif outer == 'gen':
            v = (x for x in elems)
        elif outer == 'groupby':
            # members that depend on how far the OUTER iterator has advanced: groupby groups share one underlying iterator
            pairs = [(i, x) for i, e in enumerate(elems) for x in e]
            v = (g for _, g in itertools.groupby(pairs, key=lambda p: p[0]))
        elif outer == 'dictkeys':
            v = OrderedDict((e, i) for i, e in enumerate(elems))
    return {'k': v} if wrap else v


def ref_items(outer, menu, idxs):
    if outer == 'scalar':
        raise TypeError('not iterable')
    elems = mk_elems(menu, idxs)
    if outer == 'groupby':
        return [[(i, x) for x in e] for i, e in enumerate(elems) if len(e)]
    if outer == 'dictkeys':
        return list(OrderedDict((e, i) for i, e in enumerate(elems)).keys())
    return elems


def mk_init(name):
    if name == 'count':
        return CountingInit()
    if name == 'counttuple':
        return CountingTupleInit()
    return INITS[name]


def is_marker(x):
    """the second element of every menu marks where a [x] sub-spec SKIPs / STOPs"""
    return any(type(x) is type(m()[1]) and x == m()[1] for m in MENUS.values())


def stop_at_marker(x):
    return STOP if is_marker(x) else x


def skip_marker(x):
    return SKIP if is_marker(x) else x


SUBS = {'T': lambda: T, 'k': lambda: 'k', 'lT': lambda: [T], 'lstop': lambda: [stop_at_marker], 'lskip': lambda: [skip_marker]}


def apply_sub(kind, items):
    """what the sub-spec hands to the fold, per the list-spec contract: SKIP drops the item, STOP drops it and everything after it"""
    if kind in ('T', 'k'):
        return items
    out = []
    for x in items:
        if kind == 'lstop' and is_marker(x):
            break
        if kind == 'lskip' and is_marker(x):
            continue
        out.append(x)
    return out


def build(spec_term):
    k = spec_term[0]
    sub = SUBS[spec_term[1]]()
    if k == 'fold':
        init = mk_init(spec_term[2])
        return Fold(sub, init=init, op=OPS[spec_term[3]]), init
    if k == 'sum':
        init = mk_init(spec_term[2])
        return Sum(sub, init=init), init
    if k == 'flatten':
        if spec_term[2] == 'lazy':
            return Flatten(sub, init='lazy'), None
        init = mk_init(spec_term[2])
        return Flatten(sub, init=init), init
    if k == 'merge':
        init = mk_init(spec_term[2])
        op = None if spec_term[3] is None else (spec_term[3] if spec_term[3] == 'update' else operator.or_ if spec_term[3] == 'or' else OPS[spec_term[3]])
        return Merge(sub, init=init, op=op), init
    raise AssertionError(spec_term)


def reference(spec_term, items):
    """plain Python value of the reduction over *items* (a fresh list)"""
    k = spec_term[0]
    if k == 'fold':
        init = INITS.get(spec_term[2], tuple if spec_term[2] == 'counttuple' else list)
        return functools.reduce({'iadd': operator.iadd, 'add': operator.add, 'logadd': operator.add, 'second': second, 'noneodd': keep_if_even}[spec_term[3]], items, init())
    if k == 'sum':
        init = INITS.get(spec_term[2], list)
        ret = functools.reduce(operator.iadd, items, init())
        try:   # wherever the builtin sum() is defined it must agree
            s = sum(items, init())
        except TypeError:
            s = ret
        if describe(s) != describe(ret):
            raise AssertionError('reference inconsistency: sum %r vs iadd %r' % (s, ret))
        return ret
    if k == 'flatten':
        if spec_term[2] == 'lazy':
            return list(itertools.chain.from_iterable(items))
        init = INITS.get(spec_term[2], list)
        return functools.reduce(operator.iadd, items, init())
    if k == 'merge':
        init = INITS.get(spec_term[2], list)
        ret = init()
        if spec_term[3] in (None, 'update'):
            for v in items:
                ret.update(v)
        elif spec_term[3] == 'or':
            for v in items:
                operator.or_(ret, v)       # Merge ignores what the op returns: only in-place effects count
        else:
            for v in items:
                operator.add(ret, v) if spec_term[3] == 'add' else operator.iadd(ret, v)
        return ret
    raise AssertionError(spec_term)


def describe(v):
    return (type(v).__name__, repr(v))


def mutable_ids(v, out=None):
    out = {} if out is None else out
    if isinstance(v, (list, dict, set)) and id(v) not in out:
        out[id(v)] = v
        for x in (list(v.values()) if isinstance(v, dict) else v):
            mutable_ids(x, out)
    elif isinstance(v, tuple):
        for x in v:
            mutable_ids(x, out)
    return out


def one_eval(spec, spec_term, inp):
    outer, menu, idxs = inp
    wrap = spec_term[1] == 'k'
    target = mk_input(outer, menu, idxs, wrap)
    before = canon(target) if outer not in ('gen', 'groupby') else None
    try:
        want = ('ok', reference(spec_term, apply_sub(spec_term[1], ref_items(outer, menu, idxs))))
    except Exception as e:
        want = ('err', type(e).__name__ if outer != 'scalar' else 'FoldError' if spec_term[1] in ('T', 'k') else 'GlomError')
    try:
        res = glom(target, spec)
        if spec_term[0] == 'flatten' and spec_term[2] == 'lazy':
            res = list(res)
        got = ('ok', res)
    except Exception as e:
        got = ('err', e)
    problem = None
    if want[0] == 'ok':
        if got[0] != 'ok':
            problem = 'raised %r' % (got[1],)
        elif describe(got[1]) != describe(want[1]):
            problem = 'returned %s %r' % describe(got[1])
    else:
        if got[0] == 'ok':
            problem = 'returned %r' % (got[1],)
        else:
            names = [c.__name__ for c in type(got[1]).__mro__]
            if want[1] not in names:
                problem = 'raised %s, expected %s' % (names[:3], want[1])
            if want[1] == 'FoldError' and not isinstance(got[1], GlomError):
                problem = 'FoldError is not a GlomError'
    if problem is None and before is not None and canon(target) != before:
        problem = 'input mutated: %r' % (target,)
    return target, want, got, problem


def run_case(case):
    spec_term, inp_a, inp_b = case
    spec, init = build(spec_term)
    results = []
    inputs = []
    for n, inp in enumerate((inp_a, inp_a, inp_b)):
        calls0 = init.calls if isinstance(init, (CountingInit, CountingTupleInit)) else None
        target, want, got, problem = one_eval(spec, spec_term, inp)
        if problem:
            return R({'expected': repr(want)[:300], 'observed': problem, 'spec': repr(spec), 'evaluation': n + 1, 'input': inp}, want[0])
        if calls0 is not None and want[0] == 'ok' and init.calls - calls0 != 1:
            return R({'expected': 'init() called exactly once per evaluation', 'observed': '%d calls' % (init.calls - calls0),
                      'spec': repr(spec), 'evaluation': n + 1}, want[0])
        inputs.append(target)
        if got[0] == 'ok':
            results.append(got[1])
    # history on ONE target object: the caller extends the list it passed before and evaluates the same spec on the same object again
    if inp_b[0] == 'list' and len(results) == 3:
        outer, menu, idxs = inp_b
        target = inputs[2]
        lst = target['k'] if spec_term[1] == 'k' else target
        lst.append(MENUS[menu]()[0])
        try:
            want = ('ok', reference(spec_term, apply_sub(spec_term[1], ref_items(outer, menu, list(idxs) + [0]))))
        except Exception as e:
            want = ('err', type(e).__name__)
        try:
            res = glom(target, spec)
            if spec_term[0] == 'flatten' and spec_term[2] == 'lazy':
                res = list(res)
            got = ('ok', res)
        except Exception as e:
            got = ('err', type(e).__name__)
        if (want[0], got[0]) != ('err', 'err') and (want[0] != got[0] or describe(want[1]) != describe(got[1])):
            return R({'expected': 'after the caller appended an element to the SAME target object: %r' % (want,), 'observed': repr(got),
                      'spec': repr(spec), 'input': inp_b}, 'ok')
    # the result object of an evaluation is a fresh object: it is no input container or element and no earlier result
    # (inner leaves of the elements are shared by reference, exactly as in the plain reduction)
    seen = {}
    for t in inputs:
        mutable_ids(t, seen)
    returns_argument = spec_term[0] == 'fold' and spec_term[3] in ('second', 'noneodd')     # these ops hand an input element back, as reduce() does
    for i, r in enumerate(results):
        if isinstance(r, (list, dict, set, Bag)) and not returns_argument:
            if id(r) in seen:
                return R({'expected': 'the result is a fresh object (not an input element, not an earlier result)', 'observed': 'result is %r' % (seen[id(r)],),
                          'spec': repr(spec), 'evaluation': i + 1}, 'ok')
            seen[id(r)] = r
    return R(None, 'ok' if len(results) == 3 else 'err' if not results else 'mixed', nontrivial=True, steps=3,
             tags={spec_term[0], inp_a[0], inp_a[1]})


def run_func(case):
    """module-level flatten() / merge()"""
    kind, arg, inp = case[:3]
    via = case[3] if len(case) > 3 else None     # None | 'T' (spec=T given explicitly) | 'wrap' (the input sits at target['a']['b'], spec='a.b')
    outer, menu, idxs = inp
    target = mk_input(outer, menu, idxs, False)
    inner = target
    before = canon(target) if outer != 'gen' else None
    extra = {}
    if via == 'T':
        extra = {'spec': T}
    elif via == 'wrap':
        target = {'a': {'b': inner}}
        extra = {'spec': 'a.b'}
    elif via == 'emptykey':
        # a falsy spec is a spec all the same: '' is the path to the key ''
        target = {'': inner, 'other': [[99]]}
        extra = {'spec': ''}
    elif via == 'emptydict':
        # spec={} yields {} whatever the target: nothing to flatten / merge
        extra = {'spec': {}}
    try:
        items = ref_items(outer, menu, idxs) if via != 'emptydict' else []
        if kind == 'flatten':
            levels, initname = arg
            cur = items
            if levels == 0:
                want = ('ok', None)   # the target itself
            else:
                for _ in range(levels - 1):
                    cur = list(itertools.chain.from_iterable(cur))
                want = ('ok', functools.reduce(operator.iadd, cur, INITS[initname]()))
        else:
            ret = INITS[arg]()
            for v in items:
                ret.update(v)
            want = ('ok', ret)
    except Exception as e:
        want = ('err', type(e).__name__ if outer != 'scalar' else 'FoldError')
    try:
        if kind == 'flatten':
            kw = {'levels': arg[0]}
            if arg[1] != 'list':
                kw['init'] = INITS[arg[1]]
            res = flatten(target, **kw, **extra)
        else:
            res = merge(target, init=INITS[arg], **extra) if arg != 'dict' else merge(target, **extra)
        got = ('ok', res)
    except Exception as e:
        got = ('err', e)
    where = {'call': '%s(%r)' % (kind, arg), 'input': inp, 'spec': via}
    if kind == 'flatten' and arg[0] == 0:
        if via in ('wrap', 'emptykey', 'emptydict'):
            return R(None, 'ok', nontrivial=False)     # levels=0 with a spec: not stated
        if got[0] != 'ok' or got[1] is not target:
            return R({'expected': 'levels=0 returns the target itself', 'observed': repr(got), **where}, 'ok')
        return R(None, 'ok', steps=1, tags={kind})
    if want[0] == 'ok':
        if got[0] != 'ok' or describe(got[1]) != describe(want[1]):
            return R({'expected': repr(want[1]), 'observed': repr(got), **where}, 'ok')
        if before is not None and canon(inner) != before:
            return R({'expected': 'input unchanged', 'observed': repr(target), **where}, 'ok')
        shared = isinstance(got[1], (list, dict, set)) and outer != 'gen' and id(got[1]) in mutable_ids(target)
        if shared:
            return R({'expected': 'result shares no mutable object with the input', 'observed': repr(got[1]), **where}, 'ok')
    else:
        if got[0] == 'ok':
            return R({'expected': 'raises %s' % want[1], 'observed': repr(got[1]), **where}, 'err')
        if want[1] not in [c.__name__ for c in type(got[1]).__mro__]:
            return R({'expected': 'raises %s' % want[1], 'observed': repr(got[1]), **where}, 'err')
    return R(None, want[0], steps=1, tags={kind, 'spec=%s' % via})


def gen_inputs(tier):
    maxlen = 3
    out = []
    for menu in MENUS:
        for n in range(0, maxlen + 1):
            for idxs in itertools.product(range(3), repeat=n):
                for outer in ('list', 'tuple', 'gen', 'dictkeys', 'groupby'):
                    if outer == 'dictkeys' and menu not in ('ints', 'strs', 'tuples', 'floats'):
                        continue
                    if outer == 'groupby' and (menu not in ('lists', 'tuples', 'strs') or n == 0):
                        continue
                    if outer in ('tuple', 'gen', 'dictkeys') and n == 3 and tier == 'quick' and idxs[0] != 0:
                        continue
                    out.append([outer, menu, list(idxs)])
    for i in range(3):
        out.append(['scalar', 'none', [i]])
    return out


def gen_specs():
    specs = []
    for sub in SUBS:
        for init in list(INITS) + ['count', 'counttuple']:
            for op in OPS:
                specs.append(['fold', sub, init, op])
            if init in ('bag', 'counttuple'):
                continue
            specs.append(['sum', sub, init])
            specs.append(['flatten', sub, init])
        specs.append(['flatten', sub, 'lazy'])
        for init in ('dict', 'odict'):
            for op in (None, 'update'):
                specs.append(['merge', sub, init, op])
        specs.append(['merge', sub, 'list', 'iadd'])
        specs.append(['merge', sub, 'dict', 'or'])
    return specs


def groupby_ok(spec_term):
    if spec_term[1] not in ('T', 'k'):
        return False       # a [x] sub-spec materialises the outer iterator first: the groups are spent, as in plain Python
    if spec_term[0] == 'flatten':
        return spec_term[2] in ('lazy', 'list')
    if spec_term[0] == 'sum':
        return spec_term[2] == 'list'
    return spec_term[0] == 'fold' and spec_term[2] == 'list' and spec_term[3] == 'iadd'


def gen_cases(tier):
    inputs = gen_inputs(tier)
    specs = gen_specs()
    cases = []
    n = len(inputs)
    for si, s in enumerate(specs):
        for ii, a in enumerate(inputs):
            b = inputs[(ii * 7 + si + 1) % n]   # a different input for the third evaluation (deterministic pairing)
            if 'groupby' in (a[0], b[0]) and not groupby_ok(s):
                continue       # group iterators are only comparable once they have been chained into a list
            cases.append([s, a, b])
    return cases


def gen_func(tier):
    cases = []
    for inp in gen_inputs(tier):
        for levels in (0, 1, 2, 3):
            for init in ('list', 'tuple'):
                cases.append(['flatten', [levels, init], inp])
        for init in ('dict', 'odict'):
            cases.append(['merge', init, inp])
        # the spec= argument: fetched once, whatever the number of levels
        for via in ('T', 'wrap', 'emptykey', 'emptydict'):
            for levels in (0, 1, 2, 3):
                cases.append(['flatten', [levels, 'list'], inp, via])
            cases.append(['merge', 'dict', inp, via])
    return cases


# ---------------------------------------------------------------------------
# a fold iterates its target with the handler registered NOW: registrations between two folds of one spec object take effect

class _Pile:
    def __init__(self, items):
        self.items = items

    def __iter__(self):
        return iter(self.items)


def run_registration(case):
    from glom import Glommer
    kind, history = case
    mk = {'sum': lambda: Sum(), 'flatten': lambda: Flatten(), 'fold': lambda: Fold(T, init=list, op=lambda a, x: a + [x]), 'merge': lambda: Merge()}[kind]
    items = {'sum': [1, 2, 3], 'flatten': [[1], [2, 3]], 'fold': [1, 2], 'merge': [{'a': 1}, {'b': 2}]}[kind]
    other = {'sum': [10], 'flatten': [[9]], 'fold': [7], 'merge': [{'z': 0}]}[kind]
    g = Glommer()
    spec = mk()
    state = 'default'        # which items a fold sees: the object's own __iter__, the registered replacement, or nothing (iterate=False)
    for i, ev in enumerate(history):
        if ev == 'fold':
            try:
                got = ('ok', repr(g.glom(_Pile(items), spec)))
            except FoldError:
                got = ('FoldError',)
            except Exception as e:
                got = ('exc', type(e).__name__)
            if state == 'off':
                want = ('FoldError',)
            else:
                want = ('ok', repr(glom(items if state == 'default' else other, mk())))
            if got != want:
                return R({'expected': 'event %d: %r (registration state: %s)' % (i, want, state), 'observed': repr(got), 'spec': kind, 'history': history}, 'registration')
        elif ev == 'register-other':
            g.register(_Pile, iterate=lambda p: iter(other))
            state = 'other'
        elif ev == 'register-off':
            g.register(_Pile, iterate=False)
            state = 'off'
        elif ev == 'register-own':
            g.register(_Pile, iterate=iter)
            state = 'default'
    return R(None, 'ok', nontrivial='fold' in history and len(set(history)) > 1, steps=len(history), tags={kind} | set(history))


def gen_registration():
    evs = ['fold', 'register-other', 'register-off', 'register-own']
    out = []
    for kind in ('sum', 'flatten', 'fold', 'merge'):
        for n in (2, 3, 4):
            for h in itertools.product(evs, repeat=n):
                if h[-1] == 'fold' and any(e != 'fold' for e in h):
                    out.append([kind, list(h)])
    return out


# ---------------------------------------------------------------------------
# folds next to Groups: only a fold that IS a Group leaf aggregates across the Group's items; after a Group step, or inside Auto below a Group, it is a plain fold

def _temporary_inits():
    """merge() / Merge() with throw-away init callables (inline lambdas) of alternating result types: each call uses ITS init"""
    import collections
    rows = [{'b': 1}, {'a': 2}, {'b': 3}]

    class FirstWins(dict):
        def update(self, other):
            for k, v in other.items():
                self.setdefault(k, v)
    bad = []
    for i in range(400):
        r1 = merge(rows, init=lambda: {})
        r2 = merge(rows, init=lambda: collections.OrderedDict())
        r3 = glom(rows, Merge(init=lambda: FirstWins()))
        r4 = glom(rows, Merge(init=lambda: dict()))
        got = (type(r1).__name__, dict(r1), type(r2).__name__, dict(r2), type(r3).__name__, dict(r3), dict(r4))
        want = ('dict', {'b': 3, 'a': 2}, 'OrderedDict', {'b': 3, 'a': 2}, 'FirstWins', {'b': 1, 'a': 2}, {'b': 3, 'a': 2})
        if got != want:
            bad.append((i, got))
    return bad[:2]


def around_groups_menu():
    from glom import Auto, Pipe
    from glom.grouping import Group
    lists = [[1, 2], [3], [4]]
    rows = [{'v': [1, 2]}, {'v': [3]}]
    return [
        ('flatten-after-group-step', lambda: glom(rows, (Group([T['v']]), Flatten())), [1, 2, 3]),
        ('sum-after-group-step', lambda: glom([1, 2, 3], (Group([T]), Sum())), 6),
        ('merge-after-group-step', lambda: glom([{'a': 1}, {'b': 2}], (Group([T]), Merge())), {'a': 1, 'b': 2}),
        ('lazy-flatten-after-group-step', lambda: list(glom(lists, (Group([T]), Flatten(init='lazy')))), [1, 2, 3, 4]),
        ('fold-in-pipe-after-group', lambda: glom([1, 2, 3], Pipe(Group({T % 2: [T]}), T[1], Sum())), 4),
        ('auto-sum-per-item-inside-group', lambda: glom(lists, Group([Auto(Sum())])), [3, 3, 4]),
        ('auto-dict-per-item-inside-group', lambda: glom(lists, Group([Auto({'s': Sum(), 'l': [T]})])), [{'s': 3, 'l': [1, 2]}, {'s': 3, 'l': [3]}, {'s': 4, 'l': [4]}]),
        ('auto-flatten-per-item-under-key', lambda: glom([[[1], [2]], [[3]]], Group({len: [Auto(Flatten())]})), {2: [[1, 2]], 1: [[3]]}),
        ('group-leaf-sum-still-aggregates', lambda: glom([1, 2, 3], Group(Sum())), 6),
        ('group-then-group', lambda: glom([1, 2, 3], (Group([T]), Group(Sum()))), 6),
        ('temporary-init-callables-400-rounds', _temporary_inits, []),
    ]


def run_around_groups(i):
    name, f, want = around_groups_menu()[i]
    try:
        got = f()
    except Exception as e:
        return R({'expected': repr(want), 'observed': 'raised %r' % (e,), 'case': name}, name)
    if got != want or type(got) is not type(want):
        return R({'expected': repr(want), 'observed': repr(got), 'case': name}, name)
    return R(None, name, nontrivial=True, steps=1)


def subs(tier, only=None):
    from ..engine import fast_tracebacks
    fast_tracebacks()
    out = [
        Sub('reductions', gen_cases(tier), run_case,
            rule='case = (spec term, input A, input B): one spec object evaluated on A, A again and B, each against the plain reduction; '
                 'input snapshots, init() call count and identity disjointness of inputs and results',
            min_nontrivial=10000, min_outcomes=2, required_tags=['fold', 'sum', 'flatten', 'merge', 'list', 'tuple', 'gen', 'dictkeys', 'scalar'] + list(MENUS)),
        Sub('folds-around-groups', list(range(len(around_groups_menu()))), run_around_groups,
            rule='fixed menu: Sum / Flatten / Merge as a chain step after a Group, inside Auto below a Group, as Group leaf', min_nontrivial=11, min_outcomes=11),
        Sub('registration-histories', gen_registration(), run_registration,
            rule='case = (Sum | Flatten | Fold | Merge, history of <= 4 events over {fold, register another iterate handler, register iterate=False, register iter} '
                 'ending in a fold) on one Glommer and ONE spec object: every fold uses the registration in force', min_nontrivial=300, min_outcomes=1),
        Sub('functions', gen_func(tier), run_func,
            rule='case = (flatten(levels 0..3, init) | merge(init), input, spec= absent | T | a path to where the input sits)', min_nontrivial=1000, min_outcomes=2,
            required_tags=['flatten', 'merge', 'spec=wrap', 'spec=T']),
    ]
    return [s for s in out if only in (None, s.name)]
