"""C20 - Concurrent and re-entrant glom calls behave exactly as when run alone.

Real threads under a cooperative scheduler that owns every switch (one semaphore baton per
thread; the library has no locks of its own).  Every controlled execution runs in a forked
child of a process that has never called glom, so caches and registry memos are cold.
  callables   : 2 threads (thorough: also 3), yield points inside instrumented callables placed in
                the specs (<= 4 per call); ALL interleavings, no preemption bound.
  lines       : 2 threads, a scheduling point at every `line` event of every frame whose code
                lives in glom/*.py (sys.settrace); preemption bound 1: thread A is preempted at
                each of its points in turn, B runs to completion, A resumes; both orders.
  hot-lines   : preemption bound 2 with points restricted to the functions that touch
                process-wide state (Path.from_text, TargetRegistry lookups / registration).
  calls       : preemption bound 2 at function-entry granularity over all of glom/*.py (no prior
                knowledge of where shared state lives).
  reentrancy  : every nesting of depth <= 3 of "a callable inside a spec calls glom on a pool
                entry", inner failures propagating or caught by the callable.
Oracle: every call's outcome (value, or error class + scrubbed message / trace) equals its
outcome when run alone in a pristine process.
"""
import itertools
import json
import os
import pickle
import re
import sys
import threading

from ..engine import R, Sub, REPO

PROPERTY = 'C20'
ASSUMPTIONS = [
    'scheduling points: instrumented callables (callables), every line event in glom/*.py (lines), lines of the state-touching functions (hot-lines), '
    'function entries (calls); a switch inside a single source line is not explored; C-level operations on dicts are assumed atomic',
    'every execution starts from a pristine process image (fork of a process that never called glom)',
    'free-running OS threads are a non-deciding smoke pass in the thorough tier',
]

GLOM_DIR = os.path.join(os.path.abspath(REPO), 'glom') + os.sep
HOT_FUNCS = {'from_text', 'create', 'get_handler', 'get_type_map', '_get_closest_type', 'register', '_register_fuzzy_type', 'register_op'}

_local = threading.local()


class Sched:
    def __init__(self, n):
        self.n = n
        self.batons = [threading.Semaphore(0) for _ in range(n)]
        self.back = threading.Semaphore(0)
        self.finished = [False] * n
        self.points = [0] * n
        self.results = [None] * n
        self.trace = []
        self.pause_at = [None] * n     # None = hand the baton back at every point; else the set of point numbers at which to pause

    def point(self):
        tid = getattr(_local, 'tid', None)
        if tid is None:
            return
        self.points[tid] += 1
        pa = self.pause_at[tid]
        if pa is not None and self.points[tid] not in pa:
            return
        self.back.release()
        self.batons[tid].acquire()

    def _wrap(self, tid, body, mode):
        _local.tid = tid
        self.batons[tid].acquire()
        try:
            if mode in ('lines', 'hot-lines', 'calls'):
                sys.settrace(self._tracer(mode))
            try:
                self.results[tid] = body()
            finally:
                sys.settrace(None)
        except BaseException as e:   # harness failure inside the thread
            self.results[tid] = ['harness', repr(e)]
        finally:
            self.finished[tid] = True
            _local.tid = None
            self.back.release()

    def _tracer(self, mode):
        sched = self

        def local(frame, event, arg):
            if event == 'line':
                sched.point()
            return local

        def tracer(frame, event, arg):
            if event != 'call':
                return None
            code = frame.f_code
            if not code.co_filename.startswith(GLOM_DIR):
                return None
            if mode == 'lines':
                return local
            if mode == 'hot-lines':
                return local if code.co_name in HOT_FUNCS else None
            if mode == 'calls':
                sched.point()
                return None
            return None
        return tracer

    def run(self, bodies, chooser, mode):
        threads = [threading.Thread(target=self._wrap, args=(i, b, mode), daemon=True) for i, b in enumerate(bodies)]
        for t in threads:
            t.start()
        current = None
        step = 0
        while not all(self.finished):
            enabled = [i for i in range(self.n) if not self.finished[i]]
            tid = chooser(step, enabled, current, self.points)
            if tid not in enabled:
                return 'diverged: schedule asks for thread %r, enabled %r at step %d' % (tid, enabled, step)
            self.trace.append(tid)
            current = tid
            step += 1
            self.batons[tid].release()
            if not self.back.acquire(timeout=30):
                return 'deadlock: no thread reached a scheduling point within 30s'
        return None


SCHED = [None]


class Y:
    """instrumented callable: a scheduling point inside a spec"""
    def __init__(self, tag):
        self.tag = tag

    def __call__(self, t):
        s = SCHED[0]
        if s is not None:
            s.point()
        return t

    def __repr__(self):
        return 'Y(%s)' % self.tag


class YFail(Y):
    """a callee that is a scheduling point and then fails"""
    def __call__(self, *a, **kw):
        Y.__call__(self, None)
        raise ValueError('callee %s failed for %r' % (self.tag, a))


class YRows:
    """a lazy target: a scheduling point before every row"""
    def __init__(self, tag, rows):
        self.tag, self.rows = tag, rows

    def __iter__(self):
        for r in self.rows:
            Y(self.tag)(None)
            yield r

    def __repr__(self):
        return 'YRows(%s)' % self.tag


class YMissing(Y):
    """a missing= factory (called without arguments) that is a scheduling point"""
    def __call__(self):
        Y.__call__(self, None)
        return {}


def scrub(text):
    text = re.sub(r'0x[0-9a-fA-F]+', '0xADDR', text)
    text = re.sub(r'File "[^"]*", line \d+', 'File "F", line N', text)
    return text


def pool():
    """colliding calls; built lazily inside the child so that spec objects shared between two threads are the SAME object"""
    from glom import glom, T, S, Coalesce, Fill, Match, Val, Check, M, Auto, Invoke
    from glom.grouping import Group
    from .. import c06pool as P
    shared = (Y('s1'), {'c': Coalesce('zz', default=[T['a'], {'k': T['a']}]), 'f': Fill({'k': T['a'], 'l': [T['a'], 'lit']}),
                        'g': ('items', Y('s2'), Group({T % 2: [T]})), 'y': (Y('s3'), 'a')})
    shared_invoke = Invoke(lambda *a, **kw: (a, sorted(kw.items()))).specs((Y('i1'), T['a'])).specs((Y('i2'), T['a']), k=(Y('i3'), T['a']))

    def boom(t):
        raise ZeroDivisionError('user failure inside a spec')
    from glom import Ref, Glommer, A, Vars, GlomError

    class Uncopyable(GlomError):
        def __init__(self, code, detail):
            GlomError.__init__(self, 'code %s' % code)      # args has one element, the constructor needs two
            self.detail = detail

        def get_message(self):
            return 'uncopyable error %s' % (self.args,)

    def raise_uncopyable(t):
        raise Uncopyable(7, 'detail')
    import operator
    from glom import Call, Iter
    shared_first = Iter().first(key=Call(operator.lt, args=(S.limit, T)))
    shared_scope = {}

    def with_shared_scope(tag):
        def call(target, spec):
            shared_scope['cfg'] = tag                 # the caller sets the dict up for ITS call ...
            return glom(target, spec, scope=shared_scope)     # ... and glom copies it when the call starts
        return call
    shared_vars = (S(v=Vars({'owner': None})), A.v.owner, Y('v1'), S.v.owner, Y('v2'), {'owner': S.v.owner})
    tree = lambda: {'v': 1, 'kids': [{'v': 2, 'kids': []}]}
    from glom import Assign
    shared_assign = (Assign('a.b.c', T['v'], missing=YMissing('am')), Y('a2'))
    shared_fill_acc = (S(acc=Fill([])), [(Y('fa'), S.acc.append(T))], S.acc)      # the [] under Fill is rebuilt for every evaluation

    def job_class():
        class Rejected(Exception):      # two classes with the SAME qualified name (a class factory run twice)
            pass
        return Rejected
    RejA, RejB = job_class(), job_class()

    def raiser(cls):
        def raise_it(t):
            raise cls('rejected %r' % (t,))
        return raise_it

    def catching_own(cls):
        def call(target, spec):
            try:
                return glom(target, spec)
            except cls as e:
                return 'caught as its own class: %s' % (e.args,)
            except Exception as e:
                if 'Rejected' not in repr(type(e).__mro__):
                    raise       # somebody else's failure (an inner call of a re-entrancy chain)
                return 'NOT an instance of the class that was raised: %r' % (type(e).__mro__,)
        return call
    from glom import Merge, Flatten
    shared_merge, shared_flatten = Merge(), Flatten()

    def other_callee(*a, **kw):
        return ('other callee', a, sorted(kw.items()))
    gm = Glommer()
    gm.register(P.UA, get=lambda o, k: 'glommer-handler:%s' % k)
    return [
        ('path-1', lambda: {'a': {'b': 1}}, ('a', Y('p1'), 'b')),
        ('path-2', lambda: {'a': {'b': 'two'}, 'q': 1}, {'r': 'a.b', 'y': (Y('p2'), 'a.b', Y('p3'))}),
        ('shared-1', lambda: {'a': 1, 'items': [1, 2, 3]}, shared),
        ('shared-2', lambda: {'a': 'z', 'items': [4, 6]}, shared),
        ('user-type-1', lambda: P.UA(), ('x', Y('u1'))),
        ('user-type-2', lambda: P.UB(), {'v': 'x', 'w': (Y('u2'), 'x')}),
        ('bind-mode', lambda: {'a': 'bound'}, (S(k=T['a']), Y('b1'), Fill({'v': S['k'], 'lit': 'a'}), Y('b2'), Match({'v': str, 'lit': 'a'}), Auto((S['k'], Y('b3'))))),
        ('fail-path', lambda: {'a': {'b': 1}}, ('a', Y('f1'), 'zz.q')),
        ('fail-coalesce', lambda: {'a': 1}, ('a', Y('f2'), Coalesce(T['x'], (Y('f3'), T['y'])))),
        ('shared-invoke-1', lambda: {'a': 'one'}, shared_invoke),
        ('shared-invoke-2', lambda: {'a': 'two'}, shared_invoke),
        ('fail-user-exception', lambda: {'a': 1}, ('a', Y('x1'), boom)),
        # two DIFFERENT recursive specs that use the same Ref name
        ('ref-tree-1', tree, Ref('node', {'v': ('v', Y('r1')), 'kids': ('kids', [Ref('node')])})),
        ('ref-tree-2', tree, Ref('node', {'val': (Y('r2'), 'v'), 'tag': Val('B'), 'sub': ('kids', [Ref('node')])})),
        # ONE spec object with scope variables: written, a scheduling point, read back
        ('shared-vars-1', lambda: 'first-owner', shared_vars),
        ('shared-vars-2', lambda: 'second-owner', shared_vars),
        # a user-defined GlomError subclass that cannot be copied (constructor signature differs from .args), raised below two levels
        ('fail-uncopyable-glomerror', lambda: {'a': {'b': 1}}, ('a', Y('q1'), raise_uncopyable)),
        # ONE first(key) spec whose key reads the scope, used by two calls with different bindings
        ('shared-first-1', lambda: [3, 5, 9], (S(limit=Val(4)), Y('h1'), shared_first)),
        ('shared-first-2', lambda: [3, 5, 9], (S(limit=Val(6)), Y('h2'), shared_first)),
        # two callers that prepare ONE shared dict and pass it as scope=: glom works on a snapshot taken when the call starts
        ('caller-scope-A', lambda: {'a': 1}, (Y('c1'), {'cfg': S.cfg, 'a': 'a'}, Y('c2')), with_shared_scope('A')),
        ('caller-scope-B', lambda: {'a': 2}, ({'cfg': S.cfg, 'a': 'a'}, Y('c3')), with_shared_scope('B')),
        # calls made through a Glommer with a registry of its own (the module-level registry treats these types differently)
        ('glommer-type-1', lambda: P.UA(), ('x', Y('m1')), gm.glom),
        ('glommer-type-2', lambda: {'o': P.UB(), 'l': [P.UA()]}, {'v': ('o', Y('m2'), 'x'), 'w': ('l', Y('m3'), ['x'])}, gm.glom),
        # ONE back-filling Assign: the value comes from each call's own target, the missing= factory is a scheduling point
        ('shared-assign-1', lambda: {'v': 'first'}, shared_assign),
        ('shared-assign-2', lambda: {'v': 'second'}, shared_assign),
        # ONE spec whose accumulator starts as a Fill([]) literal
        ('shared-fill-acc-1', lambda: ['a1', 'a2'], shared_fill_acc),
        ('shared-fill-acc-2', lambda: ['b1', 'b2', 'b3'], shared_fill_acc),
        # user exceptions of two distinct classes with one qualified name: each caller catches its own class
        ('same-name-class-A', lambda: {'a': 1}, ('a', Y('n1'), raiser(RejA)), catching_own(RejA)),
        ('same-name-class-B', lambda: {'a': 2}, ('a', Y('n2'), raiser(RejB)), catching_own(RejB)),
        # T call steps: the failing callee of one call is a scheduling point, another call makes its own T call meanwhile (the trace names THIS call's callee and arguments)
        ('t-call-callee-fails', lambda: {'f': YFail('tf')}, T['f']('argument-of-the-failing-call')),
        ('t-call-other', lambda: {'g': other_callee}, (Y('o1'), T['g']('argument-of-the-other-call', k=1), Y('o2'))),
        # ONE fresh Merge / Flatten spec folding two lazy targets at the same time (its very first evaluation is still running when the second starts)
        ('shared-merge-1', lambda: YRows('m1', [{'a': 1}, {'b': 2}]), shared_merge),
        ('shared-merge-2', lambda: YRows('m2', [{'c': 3}, {'a': 9}]), shared_merge),
        ('shared-flatten-1', lambda: YRows('l1', [[1], [2]]), shared_flatten),
    ]


def call_body(entry):
    from glom import glom, GlomError
    name, mk, spec = entry[:3]
    caller = entry[3] if len(entry) > 3 else glom

    def body():
        try:
            res = caller(mk(), spec)
            return ['ok', scrub(repr(res))]
        except GlomError as e:
            return ['err', type(e).__name__, scrub(str(e))]
        except Exception as e:
            return ['exc', type(e).__name__, scrub(str(e))]
    return body


def in_child(fn):
    r, w = os.pipe()
    pid = os.fork()
    if pid == 0:
        try:
            os.close(r)
            try:
                data = pickle.dumps(('ok', fn()))
            except BaseException as e:
                import traceback
                data = pickle.dumps(('err', ''.join(traceback.format_exception(type(e), e, e.__traceback__))))
            with os.fdopen(w, 'wb') as f:
                f.write(data)
        finally:
            os._exit(0)
    os.close(w)
    with os.fdopen(r, 'rb') as f:
        data = f.read()
    os.waitpid(pid, 0)
    st, res = pickle.loads(data)
    if st != 'ok':
        raise RuntimeError('child failed: %s' % res)
    return res


def execute(indices, chooser, mode, pause_at=None):
    """one controlled execution in this (child) process -> (problem, results, points, trace)"""
    import warnings
    warnings.simplefilter('ignore')
    p = pool()
    s = Sched(len(indices))
    if pause_at is not None:
        s.pause_at = [set(x) for x in pause_at]
    SCHED[0] = s
    problem = s.run([call_body(p[i]) for i in indices], chooser, mode)
    SCHED[0] = None
    return problem, s.results, s.points, s.trace


def sequential_chooser(order):
    """bound 0: run the threads to completion in the given order"""
    def choose(step, enabled, current, points):
        if current in enabled:
            return current
        for t in order:
            if t in enabled:
                return t
    return choose


ALONE = {}


def compute_alone():
    p = pool()
    for mode in ('callables', 'lines', 'hot-lines', 'calls'):
        for i in range(len(p)):
            problem, results, points, trace = in_child(lambda: execute([i], sequential_chooser([0]), mode, None if mode == 'callables' else [[]]))
            if problem:
                raise RuntimeError('isolated run failed: %s' % problem)
            ALONE[(mode, i)] = (results[0], points[0])
    # determinism of the harness itself: the isolated run twice must agree
    for i in range(len(p)):
        again = in_child(lambda: execute([i], sequential_chooser([0]), 'lines', [[]]))
        if (again[1][0], again[2][0]) != ALONE[('lines', i)]:
            raise RuntimeError('isolated run of pool entry %d is not deterministic' % i)


def judge(mode, indices, problem, results, points, trace, where):
    if problem:
        return R({'expected': 'the schedule can be followed (each call hits the same points as when run alone)', 'observed': problem, **where}, 'diverged')
    for tid, i in enumerate(indices):
        alone, npts = ALONE[(mode, i)]
        if results[tid] != alone:
            return R({'expected': 'thread %d (pool entry %d) as when run alone: %r' % (tid, i, alone), 'observed': repr(results[tid]),
                      'schedule': trace[:200], **where}, 'differs')
    return None


# ---------------------------------------------------------------------------
# (a) callable granularity: all interleavings

def run_callables(case):
    indices, seq = case

    def chooser(step, enabled, current, points):
        return seq[step] if step < len(seq) else (current if current in enabled else enabled[0])
    problem, results, points, trace = in_child(lambda: execute(indices, chooser, 'callables'))
    where = {'pool': indices, 'mode': 'callables'}
    v = judge('callables', indices, problem, results, points, trace, where)
    if v:
        return v
    switches = sum(1 for a, b in zip(trace, trace[1:]) if a != b)
    return R(None, 'switches:%d' % min(switches, 6), nontrivial=switches > 0, steps=len(trace), tags={'n%d' % len(indices)})


def multiset_perms(counts):
    """all sequences containing thread i exactly counts[i] times"""
    total = sum(counts)

    def rec(prefix, left):
        if len(prefix) == total:
            yield list(prefix)
            return
        for t in range(len(left)):
            if left[t]:
                left[t] -= 1
                prefix.append(t)
                yield from rec(prefix, left)
                prefix.pop()
                left[t] += 1
    return rec([], list(counts))


def gen_callables(tier):
    n = len(pool())
    cases = []
    for i in range(n):
        for j in range(i, n):
            counts = [ALONE[('callables', i)][1] + 1, ALONE[('callables', j)][1] + 1]
            for seq in multiset_perms(counts):
                cases.append([[i, j], seq])
    if tier != 'quick':
        triples = [(0, 1, 7), (2, 3, 2), (4, 5, 4), (6, 2, 8), (0, 0, 0), (4, 2, 0)]
        for tr in triples:
            counts = [ALONE[('callables', k)][1] + 1 for k in tr]
            for seq in multiset_perms(counts):
                cases.append([list(tr), seq])
    return cases


# ---------------------------------------------------------------------------
# (b) line / hot-line / call granularity with a preemption bound

def segments_chooser(segments):
    """segments: list of [thread, n]: give *thread* the baton n times (each time it runs to its next scheduling point), None = until it finishes"""
    state = {'seg': 0, 'used': 0}

    def choose(step, enabled, current, points):
        while state['seg'] < len(segments):
            t, n = segments[state['seg']]
            if t in enabled and (n is None or state['used'] < n):
                state['used'] += 1
                return t
            state['seg'] += 1
            state['used'] = 0
        return current if current in enabled else enabled[0]
    return choose


def run_segments(case):
    mode, indices, order, pauses = case
    # order: the thread to resume at each scheduling decision; pauses[t]: point numbers at which thread t hands the baton back
    segs = [[t, 1] for t in order]
    problem, results, points, trace = in_child(lambda: execute(indices, segments_chooser(segs), mode, pauses))
    where = {'pool': indices, 'mode': mode, 'order': order, 'pause_points': pauses}
    v = judge(mode, indices, problem, results, points, None if problem else compress(trace), where)
    if v:
        return v
    switches = sum(1 for a, b in zip(trace, trace[1:]) if a != b)
    return R(None, 'switches:%d' % switches, nontrivial=switches > 1, steps=len(trace), tags={mode})


def compress(trace):
    out = []
    for t in trace:
        if out and out[-1][0] == t:
            out[-1][1] += 1
        else:
            out.append([t, 1])
    return out


PAIRS = [(0, 1), (0, 0), (2, 3), (2, 2), (4, 5), (4, 4), (6, 6), (7, 8), (0, 7), (6, 2), (4, 0), (5, 8), (9, 10), (9, 9), (11, 7), (12, 13), (14, 15), (17, 18), (14, 4), (15, 5), (16, 7), (21, 4), (22, 5), (23, 24), (23, 23), (25, 26), (27, 28), (29, 30), (31, 32), (31, 31)]


def gen_lines(tier):
    """preemption bound 1: `first` pauses at its k-th line point, `second` runs to completion, `first` resumes"""
    cases = []
    # the caller-scope entries (19, 20) race in the CALLER when pre-empted before glom() has copied the dict: callable granularity and re-entrancy only
    pairs = PAIRS[:18] if tier == 'quick' else [(i, j) for i in range(len(pool())) for j in range(len(pool())) if i <= j and 19 not in (i, j) and 20 not in (i, j)]
    step = 2 if tier == 'quick' else 1
    for i, j in pairs:
        for first, second, idx in ((0, 1, i), (1, 0, j)):
            npts = ALONE[('lines', idx)][1]
            for k in range(1, npts + 1, step):
                pauses = [[], []]
                pauses[first] = [k]
                cases.append(['lines', [i, j], [first, second, first, second], pauses])
        cases.append(['lines', [i, j], [0, 1], [[], []]])     # bound 0, both orders
        cases.append(['lines', [i, j], [1, 0], [[], []]])
    return cases


def gen_hot(tier):
    """preemption bound 2 on the lines of the state-touching functions: A to k1, B to k2, A to completion, B to completion"""
    cases = []
    pairs = PAIRS[:6] if tier == 'quick' else PAIRS
    step = 2 if tier == 'quick' else 1
    for i, j in pairs:
        na, nb = ALONE[('hot-lines', i)][1], ALONE[('hot-lines', j)][1]
        for k1 in range(1, na + 1, step):
            for k2 in range(1, nb + 1, step):
                cases.append(['hot-lines', [i, j], [0, 1, 0, 1], [[k1], [k2]]])
                if i != j and tier != 'quick':
                    cases.append(['hot-lines', [i, j], [1, 0, 1, 0], [[k1], [k2]]])
    return cases


def gen_calls(tier):
    """preemption bound 2 at function-entry granularity over ALL of glom/*.py (no prior knowledge of which function holds shared state)"""
    cases = []
    pairs = [(2, 3), (2, 2), (6, 6), (9, 10)] if tier == 'quick' else PAIRS
    step = 3 if tier == 'quick' else 2
    for i, j in pairs:
        na, nb = ALONE[('calls', i)][1], ALONE[('calls', j)][1]
        for k1 in range(1, na + 1, step):
            for k2 in range(1, nb + 1, step):
                cases.append(['calls', [i, j], [0, 1, 0, 1], [[k1], [k2]]])
    return cases


# ---------------------------------------------------------------------------
# (c) re-entrancy

def sorted_repr(v):
    """the library prints dicts with sorted keys"""
    if isinstance(v, dict):
        try:
            keys = sorted(v)
        except TypeError:
            keys = list(v)
        return '{' + ', '.join('%s: %s' % (sorted_repr(k), sorted_repr(v[k])) for k in keys) + '}'
    if isinstance(v, list):
        return '[' + ', '.join(sorted_repr(x) for x in v) + ']'
    return repr(v)


def run_reentrant(case):
    chain, catch = case

    def work():
        import warnings
        warnings.simplefilter('ignore')
        from glom import glom, GlomError, T
        p = pool()
        records = []
        traces = []

        def make(level):
            name, mk, spec = p[chain[level]][:3]
            caller = p[chain[level]][3] if len(p[chain[level]]) > 3 else glom
            if level + 1 < len(chain):
                inner = make(level + 1)

                def hook(t):
                    if catch:
                        try:
                            inner()
                        except Exception:
                            pass
                    else:
                        inner()
                    return t
                full = (hook, spec, hook)      # re-enter before and after the pool spec, inside the running call
            else:
                full = spec

            def run():
                target = mk()
                try:
                    res = caller(target, full)
                    out = ['ok', scrub(repr(res))]
                except GlomError as e:
                    out = ['err', type(e).__name__, scrub(str(e))]
                    # the message of the error leaving THIS call starts with this call's own root target
                    tlines = [l for l in str(e).splitlines() if l.startswith(' - Target: ')]
                    shown = tlines[0][len(' - Target: '):][:30] if tlines else None
                    own = shown is not None and shown in (repr(target)[:30], sorted_repr(target)[:30])
                    traces.append((level, own, tlines[:1], repr(target)[:30]))
                    records.append((level, out))
                    raise
                except Exception as e:
                    out = ['exc', type(e).__name__, scrub(str(e))]
                    records.append((level, out))
                    raise
                records.append((level, out))
                return res
            return run
        try:
            make(0)()
        except Exception:
            pass
        return records, traces
    records, traces = in_child(work)
    where = {'chain': chain, 'inner_failures_caught': catch}
    fails = {7, 8, 11, 16, 29}
    for level, own, tlines, trepr in traces:
        if not own:
            return R({'expected': 'the error leaving level %d begins its trace with that call\'s own root target %s' % (level, trepr),
                      'observed': 'first Target line: %r' % (tlines,), 'chain': chain, 'inner_failures_caught': catch}, 'foreign-trace')
    for level, out in records:
        i = chain[level]
        alone = ALONE[('callables', i)][0]
        # a level whose inner call failed and propagated does not complete on its own terms
        inner_fails_propagate = (not catch) and any(c in fails for c in chain[level + 1:])
        if inner_fails_propagate:
            if out[0] == 'ok':
                return R({'expected': 'level %d fails because an inner call failed' % level, 'observed': repr(out), **where}, 'reentrant')
            continue
        if level == len(chain) - 1 or True:
            if out[0] != alone[0] or (out[0] == 'ok' and out[1] != alone[1]) or (out[0] != 'ok' and out[1] != alone[1]):
                return R({'expected': 'level %d (pool entry %d) as when run alone: %r' % (level, i, alone), 'observed': repr(out), **where}, 'reentrant')
            if out[0] != 'ok' and level == len(chain) - 1 and out != alone:
                return R({'expected': 'innermost failure message as when run alone: %r' % (alone,), 'observed': repr(out), **where}, 'reentrant')
    seen_levels = sorted(set(l for l, _ in records))
    return R(None, 'levels:%d' % len(seen_levels), nontrivial=len(chain) > 1, steps=len(records), tags={'depth%d' % len(chain), 'catch' if catch else 'propagate'})


def gen_reentrant(tier):
    n = len(pool())
    cases = []
    for d in (1, 2, 3):
        for chain in itertools.product(range(n), repeat=d):
            if d == 3 and tier == 'quick' and (chain[0] + chain[1] + chain[2]) % 5:
                continue
            for catch in (True, False):
                cases.append([list(chain), catch])
    return cases


# ---------------------------------------------------------------------------
# (d) free-running smoke (never decides)

def smoke():
    def work():
        import warnings
        warnings.simplefilter('ignore')
        p = pool()
        sys.setswitchinterval(1e-6)
        bad = []
        results = {}

        def runner(i, n):
            body = call_body(p[i])
            for _ in range(n):
                out = body()
                if out != ALONE[('callables', i)][0]:
                    bad.append((i, out))
        ts = [threading.Thread(target=runner, args=(i, 40)) for i in range(len(p)) for _ in range(2)]
        for t in ts:
            t.start()
        for t in ts:
            t.join()
        return bad[:3]
    return in_child(work)


def subs(tier, only=None):
    if not ALONE:
        compute_alone()
    out = [
        Sub('callables', gen_callables(tier), run_callables,
            rule='case = (2 or 3 pool calls, complete interleaving of their yield points); all interleavings, no preemption bound; non-trivial = at least one switch',
            min_nontrivial=1000, min_outcomes=3, required_tags=['n2'], case_timeout=120),
        Sub('lines', gen_lines(tier), run_segments,
            rule='case = (ordered pair of pool calls, preemption point k): A runs k line-points inside glom/*.py, B runs to completion, A resumes (preemption bound 1)',
            min_nontrivial=1000, min_outcomes=2, required_tags=['lines'], case_timeout=120),
        Sub('hot-lines', gen_hot(tier), run_segments,
            rule='case = (pair, k1, k2): A k1 points, B k2 points, A to completion, B to completion (preemption bound 2), points = lines of the functions '
                 'touching process-wide state',
            min_nontrivial=1, min_outcomes=1, case_timeout=120),
        Sub('reentrancy', gen_reentrant(tier), run_reentrant,
            rule='case = (chain of <= 3 pool entries, inner failures caught or propagating): a callable inside the running call re-enters glom before and after the pool spec',
            min_nontrivial=100, min_outcomes=2, required_tags=['depth2', 'depth3', 'catch', 'propagate'], case_timeout=120),
    ]
    out.append(Sub('calls', gen_calls(tier), run_segments,
                   rule='case = (pair, k1, k2): preemption bound 2 at function-entry granularity over all of glom/*.py (quick: the pairs sharing one spec '
                        'object, every 3rd entry; thorough: 12 pairs, every 2nd)', min_nontrivial=1000, min_outcomes=2,
                   required_tags=['calls'], case_timeout=120))
    return [s for s in out if only in (None, s.name)]


def extra_evidence(tier):
    ev = {'isolated_points_per_call': {'%s/%d' % k: v[1] for k, v in ALONE.items()}}
    if tier != 'quick':
        try:
            bad = smoke()
            ev['free_running_smoke'] = {'decides': False, 'mismatches_seen': len(bad), 'examples': [repr(b)[:200] for b in bad]}
        except Exception as e:
            ev['free_running_smoke'] = {'decides': False, 'error': repr(e)}
    return ev
