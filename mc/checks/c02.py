"""C02 - T expressions replay exactly the recorded operations on the target.

Enumerated: every sequence (length <= 3 quick, <= 4 thorough, reduced menu at the 4th position) over ~80 operation
instances (.attr, [item], [slice], nested-T / Spec / container arguments, calls
with literal / T / keyword / container arguments, the ten binary arithmetic
operators with five operands each, two unary operators) x six targets.  A
sequence is extended only while its prefix succeeds on that target (after a
failing step the outcome is fixed; two representative continuations are kept).
Oracle: the same chain applied with plain Python operators.
"""
import operator

from glom import glom, T, Spec, PathAccessError, GlomError

from ..engine import R, Sub

PROPERTY = 'C02'
ASSUMPTIONS = [
    'operands are small ints / strs / T; exponents in {2,0,-1}; intermediate ints above 10**6 are not extended',
    'a failing *call* step must surface the callee exception class (not necessarily PathAccessError)',
    'T or Spec inside a slice object is outside the alphabet',
]


class Fn:
    """callable with an address-free repr that reports how it was called"""
    def __init__(self, name, exc=None):
        self.name, self.exc = name, exc

    def __call__(self, *a, **kw):
        if self.exc:
            raise self.exc('boom from ' + self.name)
        return (self.name, a, tuple(kw.items()))        # keywords in the order in which they arrive

    def __repr__(self):
        return 'Fn(%r)' % self.name


class Ob:
    def __init__(self):
        self.x = 3
        self.lst = [4, 5]

    def m(self, *a, **kw):
        return ('m', a, tuple(kw.items()))

    @property
    def prop(self):
        return self.missing_inner            # the getter itself fails on ANOTHER attribute name: the step 'prop' is what fails

    def __getattr__(self, name):
        if name == 'fwd':
            return getattr(self, 'forwarded_under_another_name')       # raises AttributeError naming the other attribute
        raise AttributeError(name)

    def __repr__(self):
        return 'Ob()'


class Box:
    """a CLASS as target: subscriptable through __class_getitem__ only, callable (instantiation), with class attributes"""
    x = 3
    lst = [4, 5]

    def __class_getitem__(cls, item):
        return ('Box[]', item)

    def __repr__(self):
        return 'Box()'

    def __eq__(self, other):
        return type(other) is Box

    __hash__ = None


class CallableOb(Ob):
    """the target itself can be called; one of its attributes is None (calling THAT must fail as in Python)"""
    zz = None

    def __call__(self, *a, **kw):
        return ('the target itself was called', a, tuple(sorted(kw.items())))

    def __repr__(self):
        return 'CallableOb()'


class FalsyCallable(CallableOb):
    """callable, but falsy (an empty registry / a switched-off handler object): calling it is still calling it"""
    def __len__(self):
        return 0

    def __repr__(self):
        return 'FalsyCallable()'


def mk_target(name):
    if name == 'int':
        return 7
    if name == 'float':
        return 2.5
    if name == 'str':
        return 'ab'
    if name == 'list':
        return [1, 2, 3]
    if name == 'dict':
        return {'a': 2, 'f': Fn('f'), 'g': Fn('g', ValueError), 'l': [10, 11, 12], 0: 'zero'}
    if name == 'obj':
        return Ob()
    if name == 'callable':
        return CallableOb()
    if name == 'class':
        return Box
    if name == 'falsy-callable':
        return FalsyCallable()
    if name == 'dictsub':
        return Lenient({'a': 2, 'l': [10, 11, 12], 0: 'zero', 'f': Fn('f')})
    raise ValueError(name)


class Lenient(dict):
    """a mapping with an item access of its own: unknown keys are served by __missing__, 'A' is an alias"""
    __slots__ = ()

    def __getitem__(self, key):
        if key == 'zz':
            return 'served by __getitem__'
        return dict.__getitem__(self, key)

    def __missing__(self, key):
        if key == 5:
            raise KeyError(key)
        return ('missing', key)


TARGETS = ['int', 'float', 'str', 'list', 'dict', 'obj', 'dictsub', 'callable', 'class', 'falsy-callable']

# argument terms: {'lit': v} | {'T': ops} | {'spec': path} | {'list': [...]} | {'tuple': [...]} | {'slice': [a,b,c]}
LIT = lambda v: {'lit': v}
TA = {'T': [['[', LIT('a')]]}          # T['a']

OPS = []
for name in ('real', 'x', 'zz', 'm', 'upper', 'lst', 'prop', 'fwd'):
    OPS.append(['.', name])
for v in (0, -1, 'a', 'zz', 5, 'f', 'g', 'l', 0.0, False):
    OPS.append(['[', LIT(v)])
OPS.append(['[', {'slice': [0, 2, None]}])
OPS.append(['[', {'slice': [None, None, -1]}])
OPS.append(['[', {'slice': [None, 0, None]}])        # bounds that are 0 (falsy) are bounds all the same
OPS.append(['[', {'slice': [0, None, -1]}])
OPS.append(['[', {'tuple': [{'slice': [0, 0, None]}, LIT(0)]}])
OPS.append(['[', TA])
OPS.append(['[', {'spec': 'a'}])
OPS.append(['[', {'list': [LIT(1)]}])
OPS.append(['[', {'tuple': [LIT(1), LIT(2)]}])
OPS.append(['[', {'T': [['[', LIT('zz')]]}])      # failing nested argument
CALLS = [
    [[], {}],
    [[LIT(1)], {}],
    [[{'T': []}], {}],
    [[], {'k': TA}],
    [[{'list': [TA, LIT('lit')]}], {}],
    [[LIT(1), {'spec': 'a'}], {'z': LIT(None)}],
    [[{'dictitems': [[TA, LIT('v')], [LIT('k'), TA]]}], {}],                       # a spec in KEY position of a dict argument
    [[], {'rows': {'list': [{'dictitems': [[{'spec': 'a'}, LIT(1)]]}]}}],
    # keyword names that an implementation is likely to use for its own parameters
    [[], {'func': LIT(1), 'args': LIT(2), 'kwargs': LIT(3)}],
    [[LIT(0)], {'target': TA, 'scope': LIT(None), 'spec': LIT('s'), 'cur': LIT(4)}],
    [[], {'zeta': LIT(3), 'alpha': TA, 'mid': LIT(1)}],          # keywords reach the callee in the order in which they were written
]
for a, kw in CALLS:
    OPS.append(['(', a, kw])
BIN = ['+', '-', '*', '/', '//', '%', '**', '&', '|', '^']
for b in BIN:
    operands = [LIT(2), LIT(2.0), LIT(True), LIT(0), LIT('a'), {'T': []}, TA]     # 2 / 2.0 / True: equal-but-differently-typed twins
    if b == '**':
        operands = [LIT(2), LIT(0), LIT(-1), LIT('a'), {'T': []}]
    for o in operands:
        OPS.append([b, o])
OPS.append(['~'])
OPS.append(['neg'])

PYOP = {'+': operator.add, '-': operator.sub, '*': operator.mul, '/': operator.truediv,
        '//': operator.floordiv, '%': operator.mod, '**': operator.pow, '&': operator.and_,
        '|': operator.or_, '^': operator.xor}


class ArgFail(Exception):
    def __init__(self, k, exc):
        self.k, self.exc = k, exc


def t_from_ops(ops):
    t = T
    for op in ops:
        t = apply_t(t, op)
    return t


def build_arg(term):
    """term -> live argument object placed in the T expression"""
    if 'lit' in term:
        return term['lit']
    if 'T' in term:
        return t_from_ops(term['T'])
    if 'spec' in term:
        return Spec(term['spec'])
    if 'list' in term:
        return [build_arg(x) for x in term['list']]
    if 'tuple' in term:
        return tuple(build_arg(x) for x in term['tuple'])
    if 'slice' in term:
        return slice(*term['slice'])
    if 'dictitems' in term:
        return {build_arg(k): build_arg(v) for k, v in term['dictitems']}
    raise ValueError(term)


def apply_t(t, op):
    k = op[0]
    if k == '.':
        return getattr(t, op[1])
    if k == '[':
        return t[build_arg(op[1])]
    if k == '(':
        return t(*[build_arg(a) for a in op[1]], **{n: build_arg(v) for n, v in op[2].items()})
    if k == '~':
        return ~t
    if k == 'neg':
        return -t
    return PYOP[k](t, build_arg(op[1]))


def ref_arg(term, target):
    """value of an argument per the statement: T / Spec evaluated against the ORIGINAL target,
    containers rebuilt, everything else literal"""
    if 'lit' in term:
        return term['lit']
    if 'T' in term:
        st, val = ref_chain(target, term['T'])
        if st != 'ok':
            raise ArgFail(val[0], val[1])
        return val
    if 'spec' in term:
        if isinstance(target, dict):
            return target[term['spec']]
        if isinstance(target, (list, tuple)):
            return target[int(term['spec'])]
        return getattr(target, term['spec'])
    if 'list' in term:
        return [ref_arg(x, target) for x in term['list']]
    if 'tuple' in term:
        return tuple(ref_arg(x, target) for x in term['tuple'])
    if 'slice' in term:
        return slice(*term['slice'])
    if 'dictitems' in term:
        return {ref_arg(k, target): ref_arg(v, target) for k, v in term['dictitems']}


def ref_chain(target, ops):
    """-> ('ok', value) | ('pae', (k, exc)) | ('argfail', (inner_k, exc)) | ('callexc', (k, exc))"""
    cur = target
    for k, op in enumerate(ops):
        kind = op[0]
        try:
            if kind == '.':
                arg = None
            elif kind == '(':
                args = [ref_arg(a, target) for a in op[1]]
                kwargs = {n: ref_arg(v, target) for n, v in op[2].items()}
            elif kind in ('~', 'neg'):
                arg = None
            else:
                arg = ref_arg(op[1], target)
        except ArgFail as af:
            return ('argfail', (af.k, af.exc))
        except Exception as e:   # Spec argument that cannot be evaluated
            return ('argfail', (0, e))
        try:
            if kind == '.':
                cur = getattr(cur, op[1])
            elif kind == '[':
                cur = cur[arg]
            elif kind == '(':
                try:
                    cur = cur(*args, **kwargs)
                except Exception as e:
                    return ('callexc', (k, e))
            elif kind == '~':
                cur = ~cur
            elif kind == 'neg':
                cur = -cur
            else:
                cur = PYOP[kind](cur, arg)
        except Exception as e:
            return ('pae', (k, e))
    return ('ok', cur)


def same_value(a, b):
    if a is b:
        return True
    if type(a) is not type(b):
        return False
    if hasattr(a, '__self__') and hasattr(a, '__name__'):   # bound methods: reprs carry addresses
        return a.__name__ == b.__name__ and same_value(a.__self__, b.__self__)
    return repr(a) == repr(b)


def reachable_mutables(target):
    out = {}
    stack = [target]
    while stack:
        o = stack.pop()
        if id(o) in out:
            continue
        if isinstance(o, dict):
            out[id(o)] = o
            stack.extend(o.values())
        elif isinstance(o, list):
            out[id(o)] = o
            stack.extend(o)
        elif isinstance(o, (Ob, Fn)):
            out[id(o)] = o
            stack.extend(getattr(o, '__dict__', {}).values())
    return out


def run_case(case):
    tname, ops = case
    target = mk_target(tname)
    ref = ref_chain(target, ops)
    spec = t_from_ops(ops)
    try:
        got = ('ok', glom(target, spec))
    except Exception as e:
        got = ('exc', e)
    where = {'target': tname, 'expr': repr(spec)}
    st = ref[0]
    if st == 'ok':
        outcome = 'ok'
        want = ref[1]
        if got[0] != 'ok':
            return R({'expected': repr(want), 'observed': 'raised %r' % (got[1],), **where}, outcome)
        res = got[1]
        if id(want) in reachable_mutables(target):
            if res is not want:
                return R({'expected': 'the existing object %r (identity)' % (want,), 'observed': repr(res), **where}, outcome)
        elif not same_value(res, want):
            return R({'expected': '%s %r' % (type(want).__name__, want), 'observed': '%s %r' % (type(res).__name__, res), **where}, outcome)
    else:
        k, rexc = ref[1]
        outcome = '%s:%s' % (st, type(rexc).__name__)
        if got[0] == 'ok':
            return R({'expected': '%s at step %d (%r)' % (st, k, rexc), 'observed': 'value %r' % (got[1],), **where}, outcome)
        e = got[1]
        problems = []
        if st == 'callexc':
            if not isinstance(e, type(rexc)):
                problems.append('raised %r, callee raises %s' % (e, type(rexc).__name__))
        else:
            if not isinstance(e, PathAccessError):
                problems.append('raised %s (%s), expected PathAccessError' % (type(e).__name__, e.__class__.__mro__[1].__name__))
            else:
                if e.part_idx != k:
                    problems.append('part_idx %r, failing operation is at position %d' % (e.part_idx, k))
                if not isinstance(e.exc, type(rexc)) and not isinstance(rexc, type(e.exc)):
                    problems.append('carried %r, Python raises %s' % (e.exc, type(rexc).__name__))
                if not isinstance(e, GlomError):
                    problems.append('not a GlomError')
        if problems:
            return R({'expected': '%s at step %d (%s)' % (st, k, type(rexc).__name__), 'observed': '; '.join(problems), **where}, outcome)
    tags = set(o[0] for o in ops)
    return R(None, outcome, nontrivial=bool(ops), steps=max(1, len(ops)), tags=tags)


def small(v):
    if isinstance(v, bool):
        return True
    if isinstance(v, int):
        return abs(v) <= 10 ** 6
    if isinstance(v, float):
        return abs(v) <= 1e12
    if isinstance(v, (str, list, tuple)):
        return len(v) <= 64
    return True


def gen_cases(tier):
    maxlen = 3 if tier == 'quick' else 4
    last_menu = [o for i, o in enumerate(OPS) if i % 4 == 0 or o[0] in ('//', '(', '~', 'neg')]
    cases = []
    for tname in TARGETS:
        target = mk_target(tname)

        def extend(prefix, depth):
            for op in (OPS if depth < 3 else last_menu):
                seq = prefix + [op]
                cases.append([tname, seq])
                if depth + 1 >= maxlen:
                    continue
                st, val = ref_chain(target, seq)
                if st == 'ok':
                    if small(val):
                        extend(seq, depth + 1)
                else:
                    # the outcome is already fixed: two representative continuations
                    cases.append([tname, seq + [['.', 'real']]])
                    cases.append([tname, seq + [['+', LIT(2)]]])
                    # a later step whose own nested-T operand would fail too: the FIRST failing operation must be reported
                    cases.append([tname, seq + [['+', {'T': [['[', LIT('zz')]]}]]])
                    cases.append([tname, seq + [['[', {'T': [['[', LIT('zz')]]}]]])
                    cases.append([tname, seq + [['(', [{'T': [['.', 'zz']]}], {}]]])
        cases.append([tname, []])
        extend([], 0)
    return cases


# ---------------------------------------------------------------------------
# literal arguments: "every other argument is passed through literally" - by identity

import collections

Pt = collections.namedtuple('Pt', 'x y')


class DictSub(dict):
    pass


class ListSub(list):
    pass


class TupleSub(tuple):
    pass


class SetSub(set):
    pass


class FrozenSub(frozenset):
    pass


class Plain:
    pass


class Rec:
    """answers every recorded operation with the operand it received"""
    def __getitem__(self, k):
        return ('getitem', k)

    def __call__(self, *a, **kw):
        return ('call', a, kw)


for _n, _f in PYOP.items():
    setattr(Rec, '__%s__' % _f.__name__.strip('_'), (lambda n: (lambda self, o: (n, o)))(_n))

LITERAL_KINDS = {
    # name -> (factory, passed through by identity?)
    'namedtuple': (lambda: Pt(1, 2), True),
    'dict-subclass': (lambda: DictSub(a=1), True),
    'defaultdict': (lambda: collections.defaultdict(list, a=[1]), True),
    'ordereddict': (lambda: collections.OrderedDict(a=1), True),
    'list-subclass': (lambda: ListSub([1, 2]), True),
    'tuple-subclass': (lambda: TupleSub((1, 2)), True),
    'set-subclass': (lambda: SetSub([1]), True),
    'frozenset-subclass': (lambda: FrozenSub([1]), True),
    'deque': (lambda: collections.deque([1, 2]), True),
    'object': (Plain, True),
    'function': (lambda: len, True),
    'class': (lambda: int, True),
    'bytes': (lambda: b'ab', True),
    'bytearray': (lambda: bytearray(b'ab'), True),
    'range': (lambda: range(3), True),
    'none': (lambda: None, True),
    'ellipsis': (lambda: Ellipsis, True),
    'str': (lambda: 'T', True),
    'plain-list': (lambda: [1, 'a'], False),
    'plain-dict': (lambda: {'a': 1}, False),
    'plain-tuple': (lambda: (1, 'a'), False),
    'plain-set': (lambda: {1, 'a'}, False),
    'plain-frozenset': (lambda: frozenset([1, 'a']), False),
    'empty-list': (lambda: [], False),
    # equal-but-differently-typed members side by side in ONE argument: each keeps its own type
    'twin-tuples': (lambda: [(1, 'k'), (True, 'k'), (1.0, 'k'), (0, 'z'), (False, 'z')], False),
    'twin-frozensets': (lambda: [frozenset([1, 5]), frozenset([True, 5]), frozenset([1.0, 5])], False),
    'twin-nested': (lambda: ((1, (2,)), (1.0, (2,)), (True, (2.0,))), False),
}
WRAPPERS = ['direct', 'in-list', 'in-tuple', 'dict-value', 'list-in-list', 'in-list-twice']
POSITIONS = ['index', 'call-arg', 'call-kwarg', 'call-second-arg'] + ['op' + b for b in BIN]


def wrap_literal(wrapper, lit):
    if wrapper == 'direct':
        return lit, (lambda got: got)
    if wrapper == 'in-list':
        return [0, lit], (lambda got: got[1])
    if wrapper == 'in-tuple':
        return (lit, 0), (lambda got: got[0])
    if wrapper == 'dict-value':
        return {'k': lit}, (lambda got: got['k'])
    if wrapper == 'list-in-list':
        return [[lit]], (lambda got: got[0][0])
    if wrapper == 'in-list-twice':
        return [lit, lit], (lambda got: got[1])
    raise ValueError(wrapper)


def run_literal(case):
    kind, wrapper, position = case
    factory, by_identity = LITERAL_KINDS[kind]
    lit = factory()
    arg, unwrap = wrap_literal(wrapper, lit)
    if position == 'index':
        spec, pick, py = T[arg], (lambda r: r[1]), (lambda t: t[arg])
    elif position == 'call-arg':
        spec, pick, py = T(arg), (lambda r: r[1][0]), (lambda t: t(arg))
    elif position == 'call-second-arg':
        spec, pick, py = T(T, arg), (lambda r: r[1][1]), (lambda t: t(t, arg))
    elif position == 'call-kwarg':
        spec, pick, py = T(kw=arg), (lambda r: r[2]['kw']), (lambda t: t(kw=arg))
    else:
        b = position[2:]
        spec, pick, py = PYOP[b](T, arg), (lambda r: r[1]), (lambda t: PYOP[b](t, arg))
    where = {'literal': kind, 'wrapper': wrapper, 'position': position, 'expr': repr(spec)[:200]}
    target = Rec()
    want = py(target)
    try:
        got = glom(target, spec)
    except Exception as e:
        return R({'expected': 'the value Python computes, %r' % (want,), 'observed': 'raised %r' % (e,), **where}, 'raises')
    if got[0] != want[0]:
        return R({'expected': 'operation %r' % (want[0],), 'observed': repr(got[0]), **where}, 'wrong-op')
    try:
        received = unwrap(pick(got))
    except Exception as e:
        return R({'expected': 'argument of the same shape', 'observed': 'received %r (%r)' % (got, e), **where}, 'shape')
    outer = pick(got)
    if type(outer) is not type(arg) or (wrapper != 'direct' and len(outer) != len(arg)):
        return R({'expected': 'argument %r' % (arg,), 'observed': 'received %r' % (outer,), **where}, 'shape')
    if by_identity:
        if received is not lit:
            return R({'expected': 'the literal argument itself (%s %r) reaches the operation' % (type(lit).__name__, lit),
                      'observed': 'a different object: %s %r' % (type(received).__name__, received), **where}, 'copied')
    else:
        if isinstance(lit, (list, dict, set)) and received is lit:
            return R({'expected': 'a plain %s argument is rebuilt for the call (the callee may keep or change what it gets; the expression must not change)' % type(lit).__name__,
                      'observed': 'the very object stored in the expression was passed', **where}, 'aliased')
        if type(received) is not type(lit) or received != lit or repr(received) != repr(lit):
            return R({'expected': '%s %r' % (type(lit).__name__, lit), 'observed': '%s %r' % (type(received).__name__, received), **where}, 'changed')
    return R(None, ('identity' if by_identity else 'rebuilt') + ':' + position.rstrip('+-*/%&|^'), nontrivial=True, steps=1,
             tags={kind, wrapper, 'op' if position.startswith('op') else position})


def gen_literals(tier):
    return [[k, w, p] for k in LITERAL_KINDS for w in WRAPPERS for p in POSITIONS]


# ---------------------------------------------------------------------------
# one T expression evaluated against several targets inside ONE glom call

def mk_variant(name, i):
    if name == 'dict':
        return [{'a': 2, 'f': Fn('f'), 'g': Fn('g', ValueError), 'l': [10, 11, 12], 0: 'zero'},
                {'a': 5, 'f': Fn('f2'), 'g': Fn('g2', KeyError), 'l': [20, 21], 0: 'nought', 'zz': 1},
                {'a': 'x', 'f': Fn('f3'), 'l': []}][i]
    if name == 'list':
        return [[1, 2, 3], [7], [[4], 5, 6, 7, 8, 9]][i]
    if name == 'int':
        return [7, 0, -3][i]
    raise ValueError(name)


def outcome_of(f):
    try:
        return ('ok', type(f()).__name__ + ' ' + repr(f()))
    except PathAccessError as e:
        return ('pae', e.part_idx, type(e.exc).__name__)
    except Exception as e:
        return ('exc', type(e).__name__)


def run_per_item(case):
    tname, ops = case
    spec = t_from_ops(ops)
    alone = []
    for i in range(3):
        try:
            alone.append(('ok', glom(mk_variant(tname, i), t_from_ops(ops))))
        except Exception as e:
            alone.append(('exc', e))
    targets = [mk_variant(tname, i) for i in range(3)]
    where = {'targets': tname, 'expr': repr(spec)}
    if all(a[0] == 'ok' for a in alone):
        try:
            got = glom(targets, [spec])
        except Exception as e:
            return R({'expected': 'one result per item: %r' % ([a[1] for a in alone],), 'observed': 'raised %r' % (e,), **where}, 'ok')
        if len(got) != 3 or any(not same_value(g, a[1]) for g, a in zip(got, alone)):
            return R({'expected': 'what each item gives on its own: %r' % ([a[1] for a in alone],), 'observed': repr(got), **where}, 'ok')
        # the same spec object as dict values over sub-targets
        got2 = glom({'p': targets[0], 'q': targets[1]}, {'x': ('p', spec), 'y': ('q', spec)})
        if not same_value(got2['x'], alone[0][1]) or not same_value(got2['y'], alone[1][1]):
            return R({'expected': 'x=%r y=%r' % (alone[0][1], alone[1][1]), 'observed': repr(got2), **where}, 'ok')
        return R(None, 'ok', nontrivial=bool(ops), steps=5, tags=set(o[0] for o in ops))
    # the first failing item decides
    k = [i for i, a in enumerate(alone) if a[0] != 'ok'][0]
    try:
        got = glom(targets, [spec])
        return R({'expected': 'item %d fails: %r' % (k, alone[k][1]), 'observed': 'returned %r' % (got,), **where}, 'fail')
    except Exception as e:
        if type(e).__name__ != type(alone[k][1]).__name__ and not isinstance(e, type(alone[k][1])):
            return R({'expected': 'item %d fails with %s' % (k, type(alone[k][1]).__name__), 'observed': repr(e), **where}, 'fail')
    return R(None, 'fail', nontrivial=bool(ops), steps=4, tags=set(o[0] for o in ops))


def gen_per_item(tier):
    cases = []
    for tname in ('dict', 'list', 'int'):
        for a in OPS:
            cases.append([tname, [a]])
            for b in OPS:
                cases.append([tname, [a, b]])
    return cases


# ---------------------------------------------------------------------------
# arguments taken from the target by a nested T: evaluated ONCE - the operation receives the very object found in the target

def target_values():
    from glom import Val
    return {'list': [1, [2]], 'dict': {'k': [1]}, 'tuple': (1, [2]), 'set': {1, 2}, 'str': 'T', 'int': 7, 'none': None,
            'T-object': T['other'], 'Spec-object': Spec('other'), 'Val-object': Val('inner'), 'list-holding-T': [T['other']],
            'object': Fn('payload'), 'empty-list': [], 'empty-dict': {}}


FROM_TARGET_POSITIONS = ['call-arg', 'call-kwarg', 'call-second-arg', 'in-list-arg', 'in-dict-kwarg', 'index', 'method-arg', 'operand']


def run_from_target(case):
    vkind, position = case
    val = target_values()[vkind]
    rec = Rec()
    target = {'v': val, 'other': 'OTHER', 'f': (lambda *a, **kw: ('call', a, kw)), 'rec': rec, 'obj': Ob()}
    if position == 'call-arg':
        spec, pick = T['f'](T['v']), (lambda r: r[1][0])
    elif position == 'call-kwarg':
        spec, pick = T['f'](k=T['v']), (lambda r: r[2]['k'])
    elif position == 'call-second-arg':
        spec, pick = T['f'](0, T['v']), (lambda r: r[1][1])
    elif position == 'in-list-arg':
        spec, pick = T['f']([0, T['v']]), (lambda r: r[1][0][1])
    elif position == 'in-dict-kwarg':
        spec, pick = T['f'](k={'x': T['v']}), (lambda r: r[2]['k']['x'])
    elif position == 'index':
        spec, pick = T['rec'][T['v']], (lambda r: r[1])
    elif position == 'method-arg':
        spec, pick = T['obj'].m(T['v']), (lambda r: r[1][0])
    else:
        spec, pick = T['rec'] + T['v'], (lambda r: r[1])
    where = {'value in the target': vkind, 'position': position, 'expr': repr(spec)}
    try:
        got = glom(target, spec)
        received = pick(got)
    except Exception as e:
        return R({'expected': 'the operation receives target[\'v\']', 'observed': 'raised %r' % (e,), **where}, 'raises')
    if received is not val:
        return R({'expected': 'the operation receives the very object stored in the target: %s %r' % (type(val).__name__, val),
                  'observed': '%s %r%s' % (type(received).__name__, received, ' (an equal copy)' if type(received) is type(val) and repr(received) == repr(val) else ''),
                  **where}, 'not-identical')
    return R(None, position, nontrivial=True, steps=1, tags={vkind, position})


# ---------------------------------------------------------------------------
# ONE nested-T object with a side effect, used as argument of several operations: it is evaluated for every operation it appears in

def stateful_target():
    return {'grid': [[10, 11], [20, 21]], 'idx': [1, 0], 'zero': 0, 'stack': [5, 7, 9], 'f': Fn('f'), 'one': 1}


def stateful_menu():
    def pop(key):
        return T[key].pop()
    P = lambda t, key: t[key].pop()
    return {
        'index-twice': (lambda n: T['grid'][n][n], 'idx', lambda t: t['grid'][P(t, 'idx')][P(t, 'idx')]),
        'operand-twice': (lambda n: (T['zero'] + n) * n, 'stack', lambda t: (t['zero'] + P(t, 'stack')) * P(t, 'stack')),
        'operand-three-times': (lambda n: T['zero'] + n + n + n, 'stack', lambda t: t['zero'] + P(t, 'stack') + P(t, 'stack') + P(t, 'stack')),
        'index-then-operand': (lambda n: T['grid'][n][0] + n, 'idx', lambda t: t['grid'][P(t, 'idx')][0] + P(t, 'idx')),
        'call-args-twice': (lambda n: T['f'](n, n), 'stack', lambda t: t['f'](P(t, 'stack'), P(t, 'stack'))),
        'call-then-index': (lambda n: T['f'](n)[1][0] + n, 'stack', lambda t: t['f'](P(t, 'stack'))[1][0] + P(t, 'stack')),
        'two-calls': (lambda n: T['f'](n)[1] + T['f'](n)[1], 'stack', None),       # two separate chains are operands of one +: left chain first
        'pure-twice': (lambda n: T['grid'][T['one']][T['one']], 'idx', lambda t: t['grid'][1][1]),
    }


def run_stateful(name):
    mk, key, ref = stateful_menu()[name]
    shared = T[key].pop()            # ONE object
    spec = mk(shared)
    t, rt = stateful_target(), stateful_target()
    if ref is None:
        want = rt['f'](rt['stack'].pop())[1] + rt['f'](rt['stack'].pop())[1]
    else:
        want = ref(rt)
    try:
        got = glom(t, spec)
    except Exception as e:
        return R({'expected': repr(want), 'observed': 'raised %r' % (e,), 'expr': repr(spec)}, name)
    if got != want or t[key] != rt[key]:
        return R({'expected': '%r, %s left as %r' % (want, key, rt[key]), 'observed': '%r, %s left as %r' % (got, key, t[key]), 'expr': repr(spec)}, name)
    return R(None, name, nontrivial=True, steps=3, tags={name})


def subs(tier, only=None):
    from ..engine import fast_tracebacks
    fast_tracebacks()
    return [Sub('stateful-operands', sorted(stateful_menu()), run_stateful,
                rule='fixed menu: ONE nested-T object with a side effect (.pop()) used as index / operand / call argument of several operations of one chain, '
                     'against the plain Python expression (one evaluation per occurrence, left to right)', min_nontrivial=8, min_outcomes=8),
            Sub('arguments-from-target', [[v, p] for v in target_values() for p in FROM_TARGET_POSITIONS], run_from_target,
                rule='case = (kind of value stored in the target - containers, spec objects, plain objects; position of the nested T that fetches it: call / '
                     'keyword / inside a list or dict argument / index / method / operand): the value is evaluated once, the operation receives that very object',
                min_nontrivial=100, min_outcomes=6, required_tags=['list', 'T-object', 'call-arg', 'index']),
            Sub('per-item', gen_per_item(tier), run_per_item,
                rule='case = (family of three targets, T expression of <= 2 steps): glom(targets, [expr]) and the same expression object as two dict values '
                     'over sub-targets against the expression evaluated on each target alone',
                min_nontrivial=5000, min_outcomes=2, required_tags=['[', '(', '+']),
            Sub('literal-arguments', gen_literals(tier), run_literal,
                rule='case = (kind of literal, wrapper of plain containers around it, argument position: index / call / keyword / each binary operator); '
                     'a recording target returns the operand it received; container subclasses, namedtuples and all non-container objects must arrive '
                     'as the very same object, plain containers equal and of the same type',
                min_nontrivial=1500, min_outcomes=6, required_tags=['namedtuple', 'dict-subclass', 'in-list', 'index', 'call-kwarg', 'op']),
            Sub('t-replay', gen_cases(tier), run_case,
                rule='case = (target, operation sequence); generated by DFS over the op menu, extended while the prefix '
                     'succeeds on that target; non-trivial = at least one operation',
                min_nontrivial=2000, min_outcomes=6,
                required_tags=['.', '[', '(', '~', 'neg'] + BIN)]
