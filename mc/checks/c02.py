"""C02 - T expressions replay exactly the recorded operations on the target.

Enumerated: every sequence (length <= 3 quick, <= 4 thorough, reduced menu at the 4th position) over ~80 operation
instances (.attr, [item], [slice], nested-T / Spec / container arguments, calls
with literal / T / keyword / container arguments, the ten binary arithmetic
operators with five operands each, two unary operators) x six targets.  A
sequence is extended only while its prefix succeeds on that target (after a
failing step the outcome is fixed; two representative continuations are kept).
Oracle: the same chain applied with plain Python operators.
"""
import operator

from glom import glom, T, Spec, PathAccessError, GlomError

from ..engine import R, Sub

PROPERTY = 'C02'
ASSUMPTIONS = [
    'operands are small ints / strs / T; exponents in {2,0,-1}; intermediate ints above 10**6 are not extended',
    'a failing *call* step must surface the callee exception class (not necessarily PathAccessError)',
    'T or Spec inside a slice object is outside the alphabet',
]


class Fn:
    """callable with an address-free repr that reports how it was called"""
    def __init__(self, name, exc=None):
        self.name, self.exc = name, exc

    def __call__(self, *a, **kw):
        if self.exc:
            raise self.exc('boom from ' + self.name)
        return (self.name, a, tuple(sorted(kw.items())))

    def __repr__(self):
        return 'Fn(%r)' % self.name


class Ob:
    def __init__(self):
        self.x = 3
        self.lst = [4, 5]

    def m(self, *a, **kw):
        return ('m', a, tuple(sorted(kw.items())))

    def __repr__(self):
        return 'Ob()'


def mk_target(name):
    if name == 'int':
        return 7
    if name == 'float':
        return 2.5
    if name == 'str':
        return 'ab'
    if name == 'list':
        return [1, 2, 3]
    if name == 'dict':
        return {'a': 2, 'f': Fn('f'), 'g': Fn('g', ValueError), 'l': [10, 11, 12], 0: 'zero'}
    if name == 'obj':
        return Ob()
    raise ValueError(name)


TARGETS = ['int', 'float', 'str', 'list', 'dict', 'obj']

# argument terms: {'lit': v} | {'T': ops} | {'spec': path} | {'list': [...]} | {'tuple': [...]} | {'slice': [a,b,c]}
LIT = lambda v: {'lit': v}
TA = {'T': [['[', LIT('a')]]}          # T['a']

OPS = []
for name in ('real', 'x', 'zz', 'm', 'upper', 'lst'):
    OPS.append(['.', name])
for v in (0, -1, 'a', 'zz', 5, 'f', 'g', 'l'):
    OPS.append(['[', LIT(v)])
OPS.append(['[', {'slice': [0, 2, None]}])
OPS.append(['[', {'slice': [None, None, -1]}])
OPS.append(['[', TA])
OPS.append(['[', {'spec': 'a'}])
OPS.append(['[', {'list': [LIT(1)]}])
OPS.append(['[', {'tuple': [LIT(1), LIT(2)]}])
OPS.append(['[', {'T': [['[', LIT('zz')]]}])      # failing nested argument
CALLS = [
    [[], {}],
    [[LIT(1)], {}],
    [[{'T': []}], {}],
    [[], {'k': TA}],
    [[{'list': [TA, LIT('lit')]}], {}],
    [[LIT(1), {'spec': 'a'}], {'z': LIT(None)}],
]
for a, kw in CALLS:
    OPS.append(['(', a, kw])
BIN = ['+', '-', '*', '/', '//', '%', '**', '&', '|', '^']
for b in BIN:
    operands = [LIT(2), LIT(0), LIT('a'), {'T': []}, TA]
    if b == '**':
        operands = [LIT(2), LIT(0), LIT(-1), LIT('a'), {'T': []}]
    for o in operands:
        OPS.append([b, o])
OPS.append(['~'])
OPS.append(['neg'])

PYOP = {'+': operator.add, '-': operator.sub, '*': operator.mul, '/': operator.truediv,
        '//': operator.floordiv, '%': operator.mod, '**': operator.pow, '&': operator.and_,
        '|': operator.or_, '^': operator.xor}


class ArgFail(Exception):
    def __init__(self, k, exc):
        self.k, self.exc = k, exc


def t_from_ops(ops):
    t = T
    for op in ops:
        t = apply_t(t, op)
    return t


def build_arg(term):
    """term -> live argument object placed in the T expression"""
    if 'lit' in term:
        return term['lit']
    if 'T' in term:
        return t_from_ops(term['T'])
    if 'spec' in term:
        return Spec(term['spec'])
    if 'list' in term:
        return [build_arg(x) for x in term['list']]
    if 'tuple' in term:
        return tuple(build_arg(x) for x in term['tuple'])
    if 'slice' in term:
        return slice(*term['slice'])
    raise ValueError(term)


def apply_t(t, op):
    k = op[0]
    if k == '.':
        return getattr(t, op[1])
    if k == '[':
        return t[build_arg(op[1])]
    if k == '(':
        return t(*[build_arg(a) for a in op[1]], **{n: build_arg(v) for n, v in op[2].items()})
    if k == '~':
        return ~t
    if k == 'neg':
        return -t
    return PYOP[k](t, build_arg(op[1]))


def ref_arg(term, target):
    """value of an argument per the statement: T / Spec evaluated against the ORIGINAL target,
    containers rebuilt, everything else literal"""
    if 'lit' in term:
        return term['lit']
    if 'T' in term:
        st, val = ref_chain(target, term['T'])
        if st != 'ok':
            raise ArgFail(val[0], val[1])
        return val
    if 'spec' in term:
        if isinstance(target, dict):
            return target[term['spec']]
        if isinstance(target, (list, tuple)):
            return target[int(term['spec'])]
        return getattr(target, term['spec'])
    if 'list' in term:
        return [ref_arg(x, target) for x in term['list']]
    if 'tuple' in term:
        return tuple(ref_arg(x, target) for x in term['tuple'])
    if 'slice' in term:
        return slice(*term['slice'])


def ref_chain(target, ops):
    """-> ('ok', value) | ('pae', (k, exc)) | ('argfail', (inner_k, exc)) | ('callexc', (k, exc))"""
    cur = target
    for k, op in enumerate(ops):
        kind = op[0]
        try:
            if kind == '.':
                arg = None
            elif kind == '(':
                args = [ref_arg(a, target) for a in op[1]]
                kwargs = {n: ref_arg(v, target) for n, v in op[2].items()}
            elif kind in ('~', 'neg'):
                arg = None
            else:
                arg = ref_arg(op[1], target)
        except ArgFail as af:
            return ('argfail', (af.k, af.exc))
        except Exception as e:   # Spec argument that cannot be evaluated
            return ('argfail', (0, e))
        try:
            if kind == '.':
                cur = getattr(cur, op[1])
            elif kind == '[':
                cur = cur[arg]
            elif kind == '(':
                try:
                    cur = cur(*args, **kwargs)
                except Exception as e:
                    return ('callexc', (k, e))
            elif kind == '~':
                cur = ~cur
            elif kind == 'neg':
                cur = -cur
            else:
                cur = PYOP[kind](cur, arg)
        except Exception as e:
            return ('pae', (k, e))
    return ('ok', cur)


def same_value(a, b):
    if a is b:
        return True
    if type(a) is not type(b):
        return False
    if hasattr(a, '__self__') and hasattr(a, '__name__'):   # bound methods: reprs carry addresses
        return a.__name__ == b.__name__ and same_value(a.__self__, b.__self__)
    return repr(a) == repr(b)


def reachable_mutables(target):
    out = {}
    stack = [target]
    while stack:
        o = stack.pop()
        if id(o) in out:
            continue
        if isinstance(o, dict):
            out[id(o)] = o
            stack.extend(o.values())
        elif isinstance(o, list):
            out[id(o)] = o
            stack.extend(o)
        elif isinstance(o, (Ob, Fn)):
            out[id(o)] = o
            stack.extend(getattr(o, '__dict__', {}).values())
    return out


def run_case(case):
    tname, ops = case
    target = mk_target(tname)
    ref = ref_chain(target, ops)
    spec = t_from_ops(ops)
    try:
        got = ('ok', glom(target, spec))
    except Exception as e:
        got = ('exc', e)
    where = {'target': tname, 'expr': repr(spec)}
    st = ref[0]
    if st == 'ok':
        outcome = 'ok'
        want = ref[1]
        if got[0] != 'ok':
            return R({'expected': repr(want), 'observed': 'raised %r' % (got[1],), **where}, outcome)
        res = got[1]
        if id(want) in reachable_mutables(target):
            if res is not want:
                return R({'expected': 'the existing object %r (identity)' % (want,), 'observed': repr(res), **where}, outcome)
        elif not same_value(res, want):
            return R({'expected': '%s %r' % (type(want).__name__, want), 'observed': '%s %r' % (type(res).__name__, res), **where}, outcome)
    else:
        k, rexc = ref[1]
        outcome = '%s:%s' % (st, type(rexc).__name__)
        if got[0] == 'ok':
            return R({'expected': '%s at step %d (%r)' % (st, k, rexc), 'observed': 'value %r' % (got[1],), **where}, outcome)
        e = got[1]
        problems = []
        if st == 'callexc':
            if not isinstance(e, type(rexc)):
                problems.append('raised %r, callee raises %s' % (e, type(rexc).__name__))
        else:
            if not isinstance(e, PathAccessError):
                problems.append('raised %s (%s), expected PathAccessError' % (type(e).__name__, e.__class__.__mro__[1].__name__))
            else:
                if e.part_idx != k:
                    problems.append('part_idx %r, failing operation is at position %d' % (e.part_idx, k))
                if not isinstance(e.exc, type(rexc)) and not isinstance(rexc, type(e.exc)):
                    problems.append('carried %r, Python raises %s' % (e.exc, type(rexc).__name__))
                if not isinstance(e, GlomError):
                    problems.append('not a GlomError')
        if problems:
            return R({'expected': '%s at step %d (%s)' % (st, k, type(rexc).__name__), 'observed': '; '.join(problems), **where}, outcome)
    tags = set(o[0] for o in ops)
    return R(None, outcome, nontrivial=bool(ops), steps=max(1, len(ops)), tags=tags)


def small(v):
    if isinstance(v, bool):
        return True
    if isinstance(v, int):
        return abs(v) <= 10 ** 6
    if isinstance(v, float):
        return abs(v) <= 1e12
    if isinstance(v, (str, list, tuple)):
        return len(v) <= 64
    return True


def gen_cases(tier):
    maxlen = 3 if tier == 'quick' else 4
    last_menu = [o for i, o in enumerate(OPS) if i % 4 == 0 or o[0] in ('//', '(', '~', 'neg')]
    cases = []
    for tname in TARGETS:
        target = mk_target(tname)

        def extend(prefix, depth):
            for op in (OPS if depth < 3 else last_menu):
                seq = prefix + [op]
                cases.append([tname, seq])
                if depth + 1 >= maxlen:
                    continue
                st, val = ref_chain(target, seq)
                if st == 'ok':
                    if small(val):
                        extend(seq, depth + 1)
                else:
                    # the outcome is already fixed: two representative continuations
                    cases.append([tname, seq + [['.', 'real']]])
                    cases.append([tname, seq + [['+', LIT(2)]]])
                    # a later step whose own nested-T operand would fail too: the FIRST failing operation must be reported
                    cases.append([tname, seq + [['+', {'T': [['[', LIT('zz')]]}]]])
                    cases.append([tname, seq + [['[', {'T': [['[', LIT('zz')]]}]]])
                    cases.append([tname, seq + [['(', [{'T': [['.', 'zz']]}], {}]]])
        cases.append([tname, []])
        extend([], 0)
    return cases


def subs(tier, only=None):
    from ..engine import fast_tracebacks
    fast_tracebacks()
    return [Sub('t-replay', gen_cases(tier), run_case,
                rule='case = (target, operation sequence); generated by DFS over the op menu, extended while the prefix '
                     'succeeds on that target; non-trivial = at least one operation',
                min_nontrivial=2000, min_outcomes=6,
                required_tags=['.', '[', '(', '~', 'neg'] + BIN)]
