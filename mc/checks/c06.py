"""C06 - Non-mutating specs are pure: inputs untouched, outcome independent of history.

Part A (frame condition): a pool of non-mutating (target, spec[, scope]) triples drawn from
the generators of the C03 / C08 / C09 / C10 / C14 / C15 / C16 / C17 checks plus the colliding
pool; an identity-preserving deep snapshot of the target, of the spec OBJECT GRAPH and of the
caller's scope mapping is taken before and after the call (lazy results are drained).

Part B (history independence): explicit-state search over event histories.  Events: call(i)
for the colliding pool (same path text / same spec object against different targets, wildcard
paths over literal '*' keys, user types, failing calls whose trace text is the outcome),
toggle PATH_STAR, three registrations, fill(n) (fresh path strings; the path cache bound is
lowered to 4 so that overflow is reached inside the depth bound).  Every history is replayed in
a forked child of a process that has never called glom; every call(i) event, and all pool
entries at the end of the history, must equal the COLD outcome: the same call made first in a
fresh interpreter under the same configuration (PATH_STAR, set of registrations).
"""
import itertools
import json
import os
import pickle
import subprocess
import sys

from ..engine import R, Sub, REPO, VERIF

PROPERTY = 'C06'
ASSUMPTIONS = [
    'the configuration an outcome may depend on = (PATH_STAR, set of registrations made so far); nothing else',
    'cold baseline = a fresh `python` process per (configuration, pool entry); history replay = forked child of a parent that never called glom',
    'the path cache bound is lowered through Path._MAX_CACHE when that attribute exists; thorough additionally runs one history with 10001 fresh path strings at the real bound',
    'outcomes are compared as (kind, type, repr) with addresses and file/line positions scrubbed',
]

COLD = {}
PRISTINE = {}


def config_key(star, regs):
    return json.dumps([bool(star), sorted(regs)])


def compute_cold(configs, n_pool):
    """one fresh interpreter per (configuration, pool entry), 16 at a time"""
    import concurrent.futures as cf
    env = dict(os.environ, PYTHONPATH=REPO + os.pathsep + VERIF, PYTHONDONTWRITEBYTECODE='1', PYTHONHASHSEED='0')
    script = os.path.join(VERIF, 'mc', 'c06pool.py')
    jobs = [(c, i) for c in configs for i in range(n_pool)]

    def one(job):
        c, i = job
        p = subprocess.run([sys.executable, '-B', script, c, str(i)], capture_output=True, text=True, env=env, cwd='/var/tmp')
        if p.returncode != 0:
            raise RuntimeError('cold run failed: %s %s\n%s' % (c, i, p.stderr[-2000:]))
        return job, json.loads(p.stdout.strip().splitlines()[-1])
    with cf.ThreadPoolExecutor(16) as ex:
        for (c, i), out in ex.map(one, jobs):
            COLD[(c, i)] = out
    p = subprocess.run([sys.executable, '-B', script, '--state'], capture_output=True, text=True, env=env, cwd='/var/tmp')
    COLD['pristine-state'] = json.loads(p.stdout.strip().splitlines()[-1])


# ---------------------------------------------------------------------------
# part B: histories

REG_NAMES = ['regA', 'regB-exact', 'regC-iter']


def replay(hist, final_all):
    """runs inside a forked child; returns (list of (event, observed, expected-key) mismatching records, state digest)"""
    from .. import c06pool as P
    import warnings
    warnings.simplefilter('ignore')
    P.lower_cache_bound(4)
    star, regs = True, set()
    fills = 0
    records = []
    for ev in hist:
        if ev[0] == 'call':
            records.append((ev, P.call(ev[1]), config_key(star, regs), ev[1]))
        elif ev[0] == 'toggle':
            P.toggle_star()
            star = not star
        elif ev[0] == 'reg':
            P.REGISTRATIONS[ev[1]]()
            regs.add(ev[1])
        elif ev[0] == 'fill':
            P.fill(ev[1], fills)
            fills += ev[1]
        elif ev[0] == 'fillbig':
            P.lower_cache_bound(10000)
            P.fill(ev[1], 100000)
    if final_all:
        for i in range(len(P.POOL)):
            records.append((['final', i], P.call(i), config_key(star, regs), i))
    return records, P.library_state()


def in_child(fn):
    r, w = os.pipe()
    pid = os.fork()
    if pid == 0:
        try:
            os.close(r)
            try:
                data = pickle.dumps(('ok', fn()))
            except BaseException as e:
                import traceback
                data = pickle.dumps(('err', ''.join(traceback.format_exception(type(e), e, e.__traceback__))))
            with os.fdopen(w, 'wb') as f:
                f.write(data)
        finally:
            os._exit(0)
    os.close(w)
    with os.fdopen(r, 'rb') as f:
        data = f.read()
    os.waitpid(pid, 0)
    return pickle.loads(data)


def run_history(case):
    hist = case
    st, res = in_child(lambda: replay(hist, True))
    if st != 'ok':
        raise RuntimeError('history child failed: %s' % res)
    records, digest = res
    if not hist:
        st0, (_, d0) = in_child(lambda: replay([], False))
        PRISTINE['matches'] = (d0 == COLD['pristine-state'])     # reported in the evidence; the verdict rests on the cold outcomes
    for ev, seen, ckey, i in records:
        cold = COLD.get((ckey, i))
        if cold is None:
            raise RuntimeError('no cold baseline for %r' % ((ckey, i),))
        if seen != cold:
            from .. import c06pool as P
            return R({'expected': 'cold outcome %r' % (cold,), 'observed': '%r' % (seen,), 'event': ev, 'pool_entry': P.POOL[i][0],
                      'configuration': ckey, 'history': hist}, 'differs')
    kinds = set(e[0] for e in hist)
    return R(None, 'state:' + digest, nontrivial=bool(hist), steps=len(records), tags=kinds)


def gen_histories(tier):
    from .. import c06pool as P
    n = len(P.POOL)
    events = [['call', i] for i in range(n)] + [['toggle']] + [['reg', r] for r in REG_NAMES] + [['fill', 3], ['fill', 6]]
    depth = 2 if tier == 'quick' else 3
    hists = [[]]
    frontier = [[]]
    for d in range(depth):
        nxt = []
        for h in frontier:
            for ev in events:
                nxt.append(h + [ev])
        hists.extend(nxt)
        frontier = nxt
    if tier == 'quick':
        # depth 3 for the state-changing events followed by every call
        changers = [['toggle']] + [['reg', r] for r in REG_NAMES] + [['fill', 6]]
        for a in changers:
            for b in changers + [['call', 3], ['call', 0]]:
                for i in range(n):
                    hists.append([a, b, ['call', i]])
    else:
        hists.append([['fillbig', 10001]])
        changers = [['toggle']] + [['reg', r] for r in REG_NAMES] + [['fill', 6]]
        for a, b, c in itertools.product(changers, repeat=3):
            for i in range(0, n, 3):
                hists.append([a, b, c, ['call', i]])
    return hists


# ---------------------------------------------------------------------------
# part A: frame condition

def deep_snapshot(obj, memo=None, depth=0):
    """identity-preserving description of the reachable object graph"""
    memo = {} if memo is None else memo
    import types
    if obj is None or isinstance(obj, (int, float, str, bytes, bool, complex)):
        return ('v', type(obj).__name__, repr(obj))
    if isinstance(obj, (type, types.FunctionType, types.BuiltinFunctionType, types.MethodType, types.ModuleType)):
        return ('callable', id(obj))
    oid = id(obj)
    if oid in memo:
        return ('ref', oid)
    memo[oid] = True
    if depth > 30:
        return ('deep', oid)
    tn = type(obj).__name__
    if (type(obj).__module__ or '').startswith('mc.') and tn not in ('Obj', 'RoObj', 'BadObj'):
        return ('harness-object', tn, oid)    # instrumentation of the checks themselves (counters, logs) is not part of the spec
    if isinstance(obj, dict):
        return ('dict', tn, oid, tuple((deep_snapshot(k, memo, depth + 1), deep_snapshot(v, memo, depth + 1)) for k, v in obj.items()))
    if isinstance(obj, (list, tuple)):
        return ('seq', tn, oid, tuple(deep_snapshot(x, memo, depth + 1) for x in obj))
    if isinstance(obj, (set, frozenset)):
        return ('set', tn, oid, tuple(sorted(repr(x) for x in obj)))
    if tn == 'TType':
        return ('T', repr(obj))
    out = []
    d = getattr(obj, '__dict__', None)
    if isinstance(d, dict):
        for k, v in d.items():
            out.append((k, deep_snapshot(v, memo, depth + 1)))
    for cls in type(obj).__mro__:
        for s in getattr(cls, '__slots__', ()) or ():
            if isinstance(s, str) and hasattr(obj, s):
                try:
                    out.append((s, deep_snapshot(getattr(obj, s), memo, depth + 1)))
                except Exception:
                    pass
    return ('obj', tn, oid, tuple(out))


def pool_a():
    """builders: each returns (target, spec, scope or None)"""
    from . import c03, c08, c09, c10, c14, c15, c16, c17
    from .. import refauto as RA
    from .. import c06pool as P
    out = []
    for name, mk, spec in P.POOL:
        out.append(('pool:' + name, (lambda mk=mk, spec=spec: (mk(), spec, None))))
    class NullLog(list):
        def append(self, x):     # the instrumented callables of C03 must not count as mutating user callables here
            pass

    def quiet_ctx():
        ctx = RA.Ctx(set())
        ctx.log = NullLog()
        return ctx
    cases = c03.gen_cases('quick')
    for c in cases[::max(1, len(cases) // 120)]:
        out.append(('c03', (lambda c=c: (c03.mk_target(c[0]), c03.build(c[1], quiet_ctx()), None))))
    pats = c09.gen_cases('quick')
    for c in pats[::max(1, len(pats) // 80)]:
        from glom import Match
        out.append(('c09', (lambda c=c: (c09.bt(c[1]), Match(c09.bp(c[0])), None))))
    comb = c10.gen_cases('quick')
    for c in comb[::max(1, len(comb) // 60)]:
        out.append(('c10', (lambda c=c: (c10.mk_target(c[2]), c10.build(c[1]), None))))
    graphs = c14.gen_graphs('quick')
    for g in graphs[::max(1, len(graphs) // 40)]:
        for sp in ('**', '*.*', '**.a'):
            def mk(g=g, sp=sp):
                try:
                    return c14.build_graph(g), sp, None
                except c14.Unbuildable:
                    return {}, sp, None
            out.append(('c14', mk))
    red = c15.gen_specs()
    inputs = c15.gen_inputs('quick')
    for i, s in enumerate(red):
        inp = inputs[(i * 13) % len(inputs)]
        if inp[0] == 'gen' or 'count' in s or 'counttuple' in s:
            continue     # generators are consumed by design; the counting init is an instrumented (mutating) user callable
        out.append(('c15', (lambda s=s, inp=inp: (c15.mk_input(inp[0], inp[1], inp[2], s[1] == 'k'), c15.build(s)[0], None))))
    gr = c16.gen_specs('quick')
    for i, (kind, term) in enumerate(gr[::max(1, len(gr) // 40)]):
        from glom.grouping import Group
        out.append(('c16', (lambda kind=kind, term=term: (c16.mk_items(kind, [0, 1, 2, 3, 1]), Group(c16.build(term)), None))))
    pl = c17.gen_pipelines('quick')
    for c in [c for c in pl if c[0] == 'six'][::max(1, len(pl) // 120)]:
        out.append(('c17', (lambda c=c: (list(range(6)), c17.build_spec(c[1], c[2]).all(), None))))
    shapes = c08.gen_shapes('quick')
    for c in [c for c in shapes if c[0] == 'fill'][::10]:
        from glom import Fill

        def mk(c=c):
            try:
                spec, _ = c08.build_shape(c[1], 'fill', {}, {}, [])
            except TypeError:
                spec = {}
            return dict(c08.SHAPE_TARGET), Fill(spec), None
        out.append(('c08', mk))
    # argument lists / keyword dicts taken from the target must not be extended in place
    from glom import Invoke, T as T_
    star = Invoke(lambda *a, **kw: None)
    out.append(('invoke-star-args', lambda: ({'l': [1, 2], 'd': {'k': 1}}, star.star(args=T_['l']).constants(9).specs(T_['l']), None)))
    out.append(('invoke-star-kwargs', lambda: ({'l': [1, 2], 'd': {'k': 1}}, star.star(kwargs=T_['d']).constants(z=1), None)))
    out.append(('invoke-star-both', lambda: ({'l': [1, 2], 'd': {'k': 1}}, star.star(args=T_['l'], kwargs=T_['d']).star(args=T_['l']).specs(j=T_['l']), None)))
    # caller scope
    from glom import S, T, Coalesce
    out.append(('scope-read', lambda: ({'a': 1}, (S.x, T), {'x': [1, {'y': 2}]})))
    out.append(('scope-bind', lambda: ({'a': 1}, (S(x=T['a']), S.x), {'x': 'outer', 'l': [1]})))
    out.append(('scope-globals', lambda: ({'a': 1}, (T['a'], Coalesce(S.globals.g, default=0)), {'k': {'n': 1}})))
    return out


POOL_A = None


def get_pool_a():
    global POOL_A
    if POOL_A is None:
        POOL_A = pool_a()
    return POOL_A


def run_frame(idx):
    from glom import glom
    name, mk = get_pool_a()[idx]
    target, spec, scope = mk()
    before = (deep_snapshot(target), deep_snapshot(spec), deep_snapshot(scope))
    kwargs = {} if scope is None else {'scope': scope}
    outcome = 'ok'
    for _ in range(2):      # twice: repeating the call must not change anything either
        try:
            res = glom(target, spec, **kwargs)
            if hasattr(res, '__next__'):
                for _x in itertools.islice(res, 50):
                    pass
        except Exception as e:
            outcome = 'raises'
    after = (deep_snapshot(target), deep_snapshot(spec), deep_snapshot(scope))
    for what, b, a in zip(('target', 'spec', 'caller scope'), before, after):
        if a != b:
            return R({'expected': '%s unchanged (structure and identity)' % what, 'observed': 'changed', 'from': name, 'spec': repr(spec)[:300],
                      'before': repr(b)[:400], 'after': repr(a)[:400]}, 'mutated:' + what)
    return R(None, name.split(':')[0] + ':' + outcome, steps=2, tags={name.split(':')[0]})


def extra_evidence(tier):
    return {'cold_interpreter_runs': len([k for k in COLD if isinstance(k, tuple)]),
            'note': 'every history is replayed in a forked child of a process that never called glom; the empty history additionally compares the '
                    'library-state digest of that child with a fresh interpreter (see sub-check outcome classes for the states reached)'}


def subs(tier, only=None):
    from ..engine import fast_tracebacks
    from .. import c06pool as P
    out = []
    if only in (None, 'histories'):
        configs = [config_key(star, regs) for star in (True, False) for n in range(len(REG_NAMES) + 1) for regs in itertools.combinations(REG_NAMES, n)]
        if not COLD:
            compute_cold(configs, len(P.POOL))
        out.append(Sub('histories', gen_histories(tier), run_history,
                       rule='case = event history (pool calls, PATH_STAR toggle, registrations, cache fills) replayed in a pristine forked child; every call '
                            'and all pool entries at the end are compared with the cold outcome of a fresh interpreter in the same configuration; '
                            'outcome class = digest of the library-level state reached',
                       min_nontrivial=500, min_outcomes=5, required_tags=['call', 'toggle', 'reg', 'fill'], case_timeout=120))
    if only in (None, 'frame-condition'):
        out.append(Sub('frame-condition', list(range(len(get_pool_a()))), run_frame,
                       rule='case = non-mutating (target, spec, scope) triple from the generators of eight other checks; identity-preserving deep '
                            'snapshots of target, spec object graph and caller scope before / after two evaluations',
                       min_nontrivial=300, min_outcomes=4, required_tags=['pool', 'c03', 'c08', 'c09', 'c10', 'c14', 'c15', 'c16', 'c17', 'invoke-star-args']))
    return out
