"""C01 - Path access returns the addressed object or pinpoints the failing segment.

Enumerated: every spine of container kinds up to a length bound, every leaf,
every path that deviates from the valid path in at most one position (menu of
valid / missing / out-of-range / negative / padded / empty / sibling segments)
followed by each of three tails, in every spelling (dotted text, Path of
strings, Path with ints, Path with a T step at each position, pure T), against
plain and access-logging targets.  Oracle: a plain-Python walk.
"""
import re
from collections import OrderedDict

from glom import glom, Path, T, PathAccessError, GlomError

from .. import objs
from ..engine import R, Sub

PROPERTY = 'C01'
ASSUMPTIONS = [
    'segments are drawn from the menu k,1,s,0,zz,7,-1,-2," 1","","k.k" (a dotted segment only inside Path(...)), "count" (a method name of list / tuple / dict objects; no wildcard segments; those are C14)',
    'targets: dict, dict with int and digit-string keys, OrderedDict, list, tuple, attribute object; '
    'leaves None, 0, "v", {}, [], (), object without attributes',
    'reading of the access rule: mapping -> cur[seg]; list/tuple -> cur[int(seg)]; otherwise getattr',
]

KINDS = ['dict', 'dictn', 'odict', 'list', 'tuple', 'obj']
LEAVES = ['none', 'zero', 'str', 'edict', 'elist', 'etuple', 'eobj']
MENU = ['k', '1', 's', '0', 'zz', '7', '-1', '-2', ' 1', '', 'k.k', 'count']
VALID = {'dict': 'k', 'dictn': '1', 'odict': 'k', 'list': '1', 'tuple': '1', 'obj': 'k'}
INTLIKE = re.compile(r'^-?\d+$')


def mk_leaf(name, cls):
    if name == 'none':
        return None
    if name == 'zero':
        return 0
    if name == 'str':
        return 'v'
    if name == 'edict':
        return objs.label(cls['dict'](), 'leaf')
    if name == 'elist':
        return objs.label(cls['list'](), 'leaf')
    if name == 'etuple':
        return objs.label(cls['tuple'](), 'leaf')
    if name == 'eobj':
        return objs.label(cls['obj'](), 'leaf')
    raise ValueError(name)


def build(kinds, leaf, shared, logging):
    cls = objs.LOGGING if logging else objs.PLAIN
    child = mk_leaf(leaf, cls)
    for depth in range(len(kinds) - 1, -1, -1):
        kind = kinds[depth]
        sib = child if shared else 'sib%d' % depth
        if kind == 'dict':
            node = cls['dict']([('s', sib), ('k', child)])
        elif kind == 'dictn':
            node = cls['dict']([(1, sib), ('1', child), ('k', 'strk')])
        elif kind == 'odict':
            node = cls['odict']([('s', sib), ('k', child)])
        elif kind == 'list':
            node = cls['list']([sib, child])
        elif kind == 'tuple':
            node = cls['tuple']([sib, child])
        elif kind == 'obj':
            node = cls['obj'](s=sib, k=child)
        objs.label(node, 'n%d' % depth)
        child = node
    return child


def ref_step(cur, op, arg):
    if op == 'P':
        if isinstance(cur, dict):
            return cur[arg]
        if isinstance(cur, (list, tuple)):
            return cur[int(arg)]
        return getattr(cur, arg)
    if op == '.':
        return getattr(cur, arg)
    return cur[arg]


def ref_access(target, steps):
    cur = target
    for k, (op, arg) in enumerate(steps):
        try:
            cur = ref_step(cur, op, arg)
        except Exception as e:
            return ('err', k, e)
    return ('ok', cur)


def natural_t(kind_at, seg):
    """the T step a user would write for this node kind"""
    if kind_at in ('list', 'tuple'):
        return ('[', int(seg) if INTLIKE.match(seg.strip() or 'x') else seg)
    if kind_at == 'obj' or kind_at is None:
        return ('.', seg)
    return ('[', seg)


def spellings(kinds, segs):
    """-> list of (name, spec_builder_steps); steps are (op,arg)"""
    out = []
    n = len(segs)
    kat = lambda i: kinds[i] if i < len(kinds) else None
    P = [('P', s) for s in segs]
    if n and all('.' not in s for s in segs):
        out.append(('text', P))
        out.append(('text-strsub', P))      # the same text as an instance of a str subclass (enum members, tagged strings)
    out.append(('path', P))
    pint = [('P', int(s) if INTLIKE.match(s) else s) for s in segs]
    if pint != P:
        out.append(('pathint', pint))
    if n:
        nat = [natural_t(kat(i), s) for i, s in enumerate(segs)]
        out.append(('T', nat))
        for j in range(n):
            mixed = list(P)
            mixed[j] = nat[j]
            out.append(('mixed%d' % j, mixed))
            if n > 1:
                # the same steps, but the part up to and including the T step is a Path of its own that is joined with the rest
                out.append(('joined%d' % j, mixed))
            op, arg = nat[j]
            if isinstance(arg, str) and arg.isidentifier():
                unnat = list(P)
                unnat[j] = ('.' if op == '[' else '[', arg)
                out.append(('unnat%d' % j, unnat))
                if n > 1:
                    out.append(('joined-unnat%d' % j, unnat))
    return out


class TaggedStr(str):
    pass


def mk_spec(name, steps):
    if name == 'text':
        return '.'.join(a for _, a in steps)
    if name == 'text-strsub':
        return TaggedStr('.'.join(a for _, a in steps))
    parts = []
    for op, arg in steps:
        if op == 'P':
            parts.append(arg)
        elif op == '.':
            parts.append(getattr(T, arg))
        else:
            parts.append(T[arg])
    if name == 'T':
        t = T
        for op, arg in steps:
            t = getattr(t, arg) if op == '.' else t[arg]
        return t
    if name.startswith('joined'):
        k = int(name[-1]) + 1
        if k == len(parts):
            return Path(Path(*parts[:1]), Path(*parts[1:]))
        base = Path(*parts[:k])
        Path(base, 'decoy', 0)          # the prefix is kept and joined more than once: every join is a new Path
        return Path(base, *parts[k:])
    return Path(*parts)


def expected_path(steps):
    parts = []
    for op, arg in steps:
        parts.append(arg if op == 'P' else (getattr(T, arg) if op == '.' else T[arg]))
    return Path(*parts)


def run_case(case):
    kinds, leaf, shared, segs = case
    kinds = kinds.split(',') if kinds else []
    n_eval = 0
    outcome = None
    for name, steps in spellings(kinds, segs):
        if name == 'T' and any(op == '.' and not (isinstance(a, str) and a.isidentifier()) for op, a in steps):
            continue
        if any(op == '.' and not isinstance(a, str) for op, a in steps):
            continue
        for logging in (False, True):
            # reference on its own copy
            objs.reset()
            rt = build(kinds, leaf, shared, logging)
            ref = ref_access(rt, steps)
            ref_log = list(objs.LOG)
            ref_labels = dict(objs.LABEL)
            ref_keep = list(objs.KEEP)
            objs.reset()
            t = build(kinds, leaf, shared, logging)
            try:
                spec = mk_spec(name, steps)
            except Exception as e:  # e.g. T.__x: outside the domain
                continue
            objs.LOG[:] = []
            n_eval += 1
            try:
                res = glom(t, spec)
                got = ('ok', res)
            except Exception as e:
                got = ('exc', e)
            log = list(objs.LOG)
            where = {'spelling': name, 'logging': logging, 'steps': [list(map(repr, s)) for s in steps]}
            if ref[0] == 'ok':
                outcome = 'ok'
                # the reference object lives in the reference copy; compare by label / position
                want = ref[1]
                if got[0] != 'ok':
                    return R({'expected': 'value %r' % (want,), 'observed': 'raised %r' % (got[1],), **where}, 'ok')
                res = got[1]
                if hasattr(want, '__self__') and hasattr(want, '__name__'):
                    # a bound method is a new object on every access: same name, bound to the corresponding object
                    owner = ident_in(t, rt, want.__self__)
                    same = (getattr(res, '__name__', None) == want.__name__ and hasattr(res, '__self__')
                            and (res.__self__ is owner or (owner is None and res.__self__ == want.__self__)))
                else:
                    same = (res is ident_in(t, rt, want))
                if not same:
                    return R({'expected': 'the object reached by the plain walk (identity)',
                              'observed': repr(res), **where}, 'ok')
            else:
                _, k, rexc = ref
                outcome = 'err@%d:%s' % (k, type(rexc).__name__)
                if got[0] == 'ok':
                    return R({'expected': 'PathAccessError part %d (%s)' % (k, type(rexc).__name__),
                              'observed': 'value %r' % (got[1],), **where}, outcome)
                e = got[1]
                problems = []
                if not isinstance(e, PathAccessError):
                    problems.append('raised %s, not PathAccessError' % type(e).__name__)
                else:
                    if e.part_idx != k:
                        problems.append('part_idx %r != %d' % (e.part_idx, k))
                    if type(e.exc) is not type(rexc):
                        problems.append('carried exception %r, plain lookup raises %s' % (e.exc, type(rexc).__name__))
                    for c in (GlomError, KeyError, IndexError, AttributeError):
                        if not isinstance(e, c):
                            problems.append('not catchable as %s' % c.__name__)
                    try:
                        if not (e.path == expected_path(steps)):
                            problems.append('path attribute %r != %r' % (e.path, expected_path(steps)))
                    except Exception as ee:
                        problems.append('path attribute comparison failed: %r' % ee)
                if problems:
                    return R({'expected': 'PathAccessError part %d carrying %s' % (k, type(rexc).__name__),
                              'observed': '; '.join(problems), **where}, outcome)
            if logging and log != ref_log:
                return R({'expected': 'access log %r' % (ref_log,), 'observed': 'access log %r' % (log,), **where}, outcome)
            del ref_keep, ref_labels
    tags = set(kinds) | {leaf} | set(segs)
    return R(None, outcome or 'none', nontrivial=bool(segs), steps=n_eval * max(1, len(segs)), tags=tags)


def ident_in(t, rt, want):
    """map an object of the reference copy *rt* to the object at the same position of *t*.
    Both copies are built by the same deterministic builder; positions are found by a
    parallel walk over children."""
    if want is rt:
        return t
    stack = [(t, rt)]
    seen = set()
    while stack:
        a, b = stack.pop()
        if id(b) in seen:
            continue
        seen.add(id(b))
        if b is want:
            return a
        if isinstance(b, dict):
            for key in b:
                stack.append((dict.__getitem__(a, key), dict.__getitem__(b, key)))
        elif isinstance(b, list):
            for i in range(len(b)):
                stack.append((list.__getitem__(a, i), list.__getitem__(b, i)))
        elif isinstance(b, tuple):
            for i in range(len(b)):
                stack.append((tuple.__getitem__(a, i), tuple.__getitem__(b, i)))
        elif isinstance(b, objs.Obj):
            for key in object.__getattribute__(b, '__dict__'):
                stack.append((object.__getattribute__(a, '__dict__')[key], object.__getattribute__(b, '__dict__')[key]))
    # scalars (None, 0, 'v', 'sib0', bound methods ...) are compared by value-identity
    return want


def gen_cases(tier):
    cases = []
    maxlen = 3 if tier == 'quick' else 4
    import itertools
    for L in range(0, maxlen + 1):
        if L <= 2:
            kind_menu, leaves, shareds = KINDS, LEAVES, (False, True)
        elif L == 3:
            kind_menu = KINDS
            leaves = LEAVES if tier != 'quick' else ['none', 'edict', 'str']
            shareds = (False,) if tier == 'quick' else (False, True)
        else:
            kind_menu, leaves, shareds = ['dict', 'dictn', 'list', 'tuple', 'obj'], ['none', 'elist'], (False,)
        for kinds in itertools.product(kind_menu, repeat=L):
            valid = [VALID[k] for k in kinds]
            for leaf in leaves:
                for shared in shareds:
                    ks = ','.join(kinds)
                    seen = set()
                    def add(segs):
                        key = tuple(segs)
                        if key not in seen:
                            seen.add(key)
                            cases.append([ks, leaf, shared, list(segs)])
                    for plen in range(0, L + 1):
                        add(valid[:plen])
                    for k in range(0, L + 1):
                        for m in MENU:
                            rest = valid[k + 1:]
                            add(valid[:k] + [m] + rest)
                            add(valid[:k] + [m])
                            add(valid[:k] + [m, 'zz'])
    return cases


# ---------------------------------------------------------------------------
# segments that are objects (only spellable with Path(...) / T[...]): they reach the mapping as they are

import collections

Cell = collections.namedtuple('Cell', 'row col')
Cell1 = collections.namedtuple('Cell1', 'row')


class TupleKey(tuple):
    pass


class FrozenKey(frozenset):
    pass


class EmptyKeyError(KeyError):
    """a lookup error that is falsy (sized by its list of candidates, raised with none)"""
    def __len__(self):
        return len(self.args)


class EmptyAttributeError(AttributeError):
    def __bool__(self):
        return False


class Strict(dict):
    """mapping whose misses are reported with its own (falsy) KeyError subclass"""
    __slots__ = ()

    def __missing__(self, key):
        raise EmptyKeyError()


class StrictObj:
    __slots__ = ('a',)

    def __init__(self, a):
        self.a = a

    def __getattr__(self, name):
        raise EmptyAttributeError()


def run_falsy_miss(case):
    holder, segs, spelling = case
    leaf = object()
    inner = Strict(b=leaf) if holder == 'mapping' else StrictObj(leaf)
    good = 'b' if holder == 'mapping' else 'a'
    target = {'top': inner}
    steps = ['top'] + [good if sg == 'ok' else 'zz' for sg in segs]
    if spelling == 'text':
        spec = '.'.join(steps)
    elif spelling == 'path':
        spec = Path(*steps)
    else:
        spec = T['top']
        for st in steps[1:]:
            spec = spec[st] if holder == 'mapping' else getattr(spec, st)
    want_fail = 1 + segs.index('miss') if 'miss' in segs else None
    try:
        got = ('ok', glom(target, spec))
    except Exception as e:
        got = ('exc', e)
    where = {'holder': holder, 'segments': steps, 'spelling': spelling}
    if want_fail is None:
        ok = got[0] == 'ok' and got[1] is leaf
        return R(None, 'ok', nontrivial=True, steps=2) if ok else R({'expected': 'the leaf', 'observed': repr(got), **where}, 'ok')
    e = got[1]
    if got[0] == 'ok' or not isinstance(e, PathAccessError) or e.part_idx != want_fail:
        return R({'expected': 'PathAccessError at part %d (the lookup error object is falsy, it is an error all the same)' % want_fail,
                  'observed': repr(got), **where}, 'falsy-miss')
    return R(None, 'miss@%d' % want_fail, nontrivial=True, steps=2, tags={holder, spelling})


def gen_falsy_miss(tier):
    return [[h, list(sg), sp] for h in ('mapping', 'object') for sg in (['ok'], ['miss'], ['miss', 'ok']) for sp in ('text', 'path', 'T')]


OBJ_KEYS = {
    # kind -> (key present in the mapping, an absent key of the same kind)
    'namedtuple': (Cell(1, 2), Cell(2, 1)), 'namedtuple-1-field': (Cell1(1), Cell1(2)), 'tuple-subclass': (TupleKey((1, 2)), TupleKey((3,))),
    'frozenset-subclass': (FrozenKey([1]), FrozenKey([2])), 'tuple': ((1, 2), (2, 1)), 'frozenset': (frozenset([1]), frozenset([9])),
    'int': (7, 8), 'float': (2.5, 3.5), 'bool': (True, False), 'none': (None, Ellipsis), 'bytes': (b'k', b'j'), 'dotted-str': ('a.b', 'a.c'),
    'empty-tuple': ((), (0,)), 'star-str': ('*', '**'),
}


def run_object_keys(case):
    k1, k2, miss_at, spelling = case
    leaf = object()
    target = {OBJ_KEYS[k1][0]: {OBJ_KEYS[k2][0]: leaf, 'other': 1}, 'other': 2}
    segs = [OBJ_KEYS[k1][1 if miss_at == 0 else 0], OBJ_KEYS[k2][1 if miss_at == 1 else 0]]
    if spelling == 'path':
        spec = Path(*segs)
    elif spelling == 'T':
        spec = T[segs[0]][segs[1]]
    elif spelling == 'path-of-T':
        spec = Path(T[segs[0]], segs[1])
    else:
        spec = Path(segs[0], T[segs[1]])
    where = {'keys': [repr(x) for x in segs], 'spelling': spelling, 'spec': repr(spec)}
    try:
        got = ('ok', glom(target, spec))
    except Exception as e:
        got = ('exc', e)
    if miss_at is None:
        if got[0] != 'ok' or got[1] is not leaf:
            return R({'expected': 'the object stored under these keys', 'observed': repr(got), **where}, 'ok')
        return R(None, 'ok', nontrivial=True, steps=2, tags={k1, k2, spelling})
    e = got[1]
    if got[0] == 'ok' or not isinstance(e, PathAccessError) or e.part_idx != miss_at or not isinstance(e.exc, KeyError) or not isinstance(e, KeyError):
        return R({'expected': 'PathAccessError part %d carrying KeyError' % miss_at, 'observed': repr(got), **where}, 'miss')
    return R(None, 'miss@%d' % miss_at, nontrivial=True, steps=2, tags={k1, k2, spelling})


def gen_object_keys(tier):
    return [[a, b, m, sp] for a in OBJ_KEYS for b in OBJ_KEYS for m in (None, 0, 1) for sp in ('path', 'T', 'path-of-T', 'path-then-T')]


def subs(tier, only=None):
    from ..engine import fast_tracebacks
    fast_tracebacks()
    return [Sub('falsy-lookup-errors', gen_falsy_miss(tier), run_falsy_miss,
                rule='case = (mapping whose __missing__ / object whose __getattr__ raises a FALSY KeyError / AttributeError subclass; segments hit or miss; '
                     'spelling): a miss is a PathAccessError at that part', min_nontrivial=15, min_outcomes=2, required_tags=['mapping', 'object', 'T']),
            Sub('object-keys', gen_object_keys(tier), run_object_keys,
                rule='case = (kind of key at level 1, at level 2, position of a missing key or none, spelling Path(...) / T[...] / mixed): mapping keys that '
                     'are objects (namedtuples, tuple / frozenset subclasses, numbers, None, bytes, strings containing dots or stars)',
                min_nontrivial=2000, min_outcomes=3, required_tags=['namedtuple', 'tuple-subclass', 'dotted-str', 'path', 'T']),
            Sub('path-access', gen_cases(tier), run_case,
                rule='case = (spine of container kinds, leaf, shared?, segment list deviating from the valid path in <=1 '
                     'position + tail); each executed in every spelling on plain and logging targets; non-trivial = non-empty path',
                min_nontrivial=1000, min_outcomes=6,
                required_tags=KINDS + LEAVES + MENU)]
