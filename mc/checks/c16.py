"""C16 - Group builds exactly the buckets and aggregates of a hand-written loop.

Enumerated: every item sequence of length <= 4 over {-1,0,1,2} (341) plus list- and
dict-valued items; x Group spec trees with 0-3 key levels over key functions (T % 2, T % 3,
callable, constant, SKIP-producing) and leaves ([T], [T*2], [SKIP-producing],
[STOP-producing], First, Max, Min, Avg, Sum, Count, Flatten, Merge, plain callable), top-level
and nested Limit(n); every spec OBJECT is evaluated three times (A, A again, B); a fixed
menu nests a Group object inside another Group's leaf.  Oracle: a declarative bucketing
loop.  Known finding (not repaired, pinned by test_grouping::test_corner_cases): a STOP
coming from ONE bucket's leaf ends the WHOLE key level; it is classified by a second,
operational reference and reported as KNOWN-FINDING, every other disagreement is a VIOLATION.
"""
import itertools
import operator
from collections import OrderedDict

from glom import glom, T, Val, SKIP, STOP, Auto, Sum, Flatten, Merge, Fold, Pipe
from glom.grouping import Group, First, Max, Min, Avg, Limit
from glom.reduction import Count

from ..engine import R, Sub

PROPERTY = 'C16'
ASSUMPTIONS = [
    'when no item reaches the top-level leaf, None and an empty container are both accepted',
    'one key spec per dict level; keys in order of first occurrence; values in encounter order; SKIP drops the item; STOP ends the bucket',
    'known finding sig=group-key-level-stop: classified only when the spec has a STOP-returning leaf under a key level AND the observed result '
    'equals the key-level-STOP model; anything else is reported as a violation',
]

rSKIP, rSTOP = object(), object()

KEYFNS = {
    'mod2': (lambda: T % 2, lambda x: x % 2),
    'mod3': (lambda: T % 3, lambda x: x % 3),
    'par': (lambda: (lambda x: 'even' if x % 2 == 0 else 'odd'), lambda x: 'even' if x % 2 == 0 else 'odd'),
    'const': (lambda: Val('c'), lambda x: 'c'),
    'skip2': (lambda: (lambda x: SKIP if x == 2 else x % 2), lambda x: rSKIP if x == 2 else x % 2),
    'len': (lambda: len, lambda x: len(x)),
    'type': (lambda: type, lambda x: type(x)),              # bucket keys that are classes (dict, list among them)
    'isnone': (lambda: (lambda x: x is None), lambda x: x is None),
}
VALFNS = {
    'T': (lambda: T, lambda x: x),
    'dbl': (lambda: T * 2, lambda x: x * 2),
    'skipodd': (lambda: (lambda x: SKIP if x % 2 else x), lambda x: rSKIP if x % 2 else x),
    'stop3': (lambda: (lambda x: STOP if x == 2 else x), lambda x: rSTOP if x == 2 else x),
}
class _FlattenTuple:
    def __new__(cls):
        return Flatten(init=tuple)


class _Product:
    """Fold with a start value that is not falsy; the running value becomes 0 as soon as an item is 0"""
    def __new__(cls):
        return Fold(T, init=lambda: 1, op=operator.mul)


class _SumFromMinusOne:
    def __new__(cls):
        return Sum(init=lambda: -1)


AGGS = {'prod': _Product, 'sum_m1': _SumFromMinusOne, 'flatten_tuple': _FlattenTuple, 'first': First, 'max': Max, 'min': Min, 'avg': Avg, 'sum': Sum, 'count': Count, 'flatten': Flatten, 'merge': Merge}
FNLEAF = {'neg': (lambda: (lambda x: -x), lambda x: -x)}


def build(term):
    k = term[0]
    if k == 'dict':
        return {KEYFNS[term[1]][0](): build(term[2])}
    if k == 'list':
        return [VALFNS[term[1]][0]()]
    if k == 'agg':
        return AGGS[term[1]]()
    if k == 'limit':
        return Limit(term[1]) if term[2] is None else Limit(term[1], build(term[2]))
    if k == 'fnleaf':
        return FNLEAF[term[1]][0]()
    raise AssertionError(term)


EMPTY = object()


def loop(term, items):
    """the hand-written bucketing loop (declarative); EMPTY = nothing was ever produced"""
    k = term[0]
    if k == 'dict':
        keyf = KEYFNS[term[1]][1]
        buckets = OrderedDict()
        for it in items:
            key = keyf(it)
            if key is rSKIP:
                continue
            buckets.setdefault(key, []).append(it)
        out = {}
        for key, its in buckets.items():
            v = loop(term[2], its)
            if v is not EMPTY:
                out[key] = v
        return out
    if k == 'list':
        f = VALFNS[term[1]][1]
        out = []
        for it in items:
            v = f(it)
            if v is rSTOP:
                break
            if v is rSKIP:
                continue
            out.append(v)
        return out
    if k == 'limit':
        child = term[2] if term[2] is not None else ['list', 'T']
        if term[1] <= 0 or not items:
            return {} if child[0] == 'dict' else [] if child[0] == 'list' else EMPTY
        return loop(child, items[:term[1]])
    if k == 'fnleaf':
        return FNLEAF[term[1]][1](items[-1]) if items else EMPTY
    name = term[1]
    if not items:
        return EMPTY
    if name == 'first':
        return items[0]
    if name == 'max':
        return max(items)
    if name == 'min':
        return min(items)
    if name == 'avg':
        return sum(items) / float(len(items))
    if name == 'sum':
        return sum(items)
    if name == 'prod':
        out = 1
        for it in items:
            out *= it
        return out
    if name == 'sum_m1':
        return -1 + sum(items)
    if name == 'count':
        return len(items)
    if name == 'flatten':
        out = []
        for it in items:
            out += it
        return out
    if name == 'merge':
        out = {}
        for it in items:
            out.update(it)
        return out
    if name == 'flatten_tuple':
        out = ()
        for it in items:
            out += it
        return out
    raise AssertionError(term)


def ref_group(term, items):
    v = loop(term, list(items))
    if v is EMPTY:
        return None
    return v


# ---- operational model with key-level STOP (today's behaviour), used only to classify the known finding

class Node:
    def __init__(self):
        self.level_stopped = False
        self.children = {}
        self.acc = None
        self.count = 0
        self.seen = False


def op_step(term, item, st):
    k = term[0]
    if k == 'dict':
        if st.acc is None:
            st.acc = {}
        if st.level_stopped:
            return rSTOP
        key = KEYFNS[term[1]][1](item)
        if key is rSKIP:
            return st.acc
        child = st.children.setdefault(key, Node())
        r = op_step(term[2], item, child)
        if r is rSTOP:
            st.level_stopped = True
            return rSTOP     # the only key spec of this level is finished -> the level reports STOP
        if r is not rSKIP:
            st.acc[key] = r
        return st.acc
    if k == 'list':
        if st.acc is None:
            st.acc = []
        v = VALFNS[term[1]][1](item)
        if v is rSTOP:
            return rSTOP
        if v is not rSKIP:
            st.acc.append(v)
        return st.acc
    if k == 'limit':
        st.count += 1
        if st.count > term[1]:
            return rSTOP
        child = st.children.setdefault('sub', Node())
        return op_step(term[2] if term[2] is not None else ['list', 'T'], item, child)
    if k == 'fnleaf':
        return FNLEAF[term[1]][1](item)
    name = term[1]
    if name == 'first':
        if st.seen:
            return rSTOP
        st.seen = True
        return item
    st.seen = True
    if name == 'max':
        st.acc = item if st.acc is None or item > st.acc else st.acc
    elif name == 'min':
        st.acc = item if st.acc is None or item < st.acc else st.acc
    elif name == 'avg':
        st.acc = (st.acc or [0.0, 0])
        st.acc[0] += item
        st.acc[1] += 1
        return st.acc[0] / st.acc[1]
    elif name == 'sum':
        st.acc = (st.acc or 0) + item
    elif name == 'prod':
        st.acc = (1 if st.acc is None else st.acc) * item
    elif name == 'sum_m1':
        st.acc = (-1 if st.acc is None else st.acc) + item
    elif name == 'count':
        st.acc = (st.acc or 0) + 1
    elif name == 'flatten':
        st.acc = (st.acc if st.acc is not None else [])
        st.acc += item
    elif name == 'merge':
        st.acc = (st.acc if st.acc is not None else {})
        st.acc.update(item)
    elif name == 'flatten_tuple':
        st.acc = (st.acc if st.acc is not None else ()) + item
    return st.acc


def op_group(term, items):
    st = Node()
    ret = {} if term[0] == 'dict' else [] if term[0] == 'list' else None
    for it in items:
        last, ret = ret, op_step(term, it, st)
        if ret is rSTOP:
            return last
    return ret


def has_stop_leaf_under_key(term, under=False):
    k = term[0]
    if k == 'dict':
        return has_stop_leaf_under_key(term[2], True)
    if k == 'limit':
        return under or has_stop_leaf_under_key(term[2] or ['list', 'T'], under)
    if k == 'agg':
        return under and term[1] == 'first'
    if k == 'list':
        return under and term[1] == 'stop3'
    return False


def desc(v):
    if isinstance(v, dict):
        return ('dict', tuple((desc(k), desc(x)) for k, x in v.items()))
    if isinstance(v, list):
        return ('list', tuple(desc(x) for x in v))
    return (type(v).__name__, repr(v))


NAN = float('nan')


def mk_items(kind, seq):
    if kind == 'ints':
        return [x - 1 for x in seq]     # item alphabet {-1, 0, 1, 2}: a falsy running value followed by a smaller item is reachable
    if kind == 'lists':
        menu = [[1], [2, 3], [], [4, 5, 6]]
        return [list(menu[i]) for i in seq]
    if kind == 'dicts':
        menu = [{'a': 1}, {'b': 2, 'a': 0}, {}, {'c': 3, 'd': 4, 'a': 9}]
        return [dict(menu[i]) for i in seq]
    if kind == 'tuples':
        menu = [(1,), (2, 3), (), (4, 5, 6)]
        return [menu[i] for i in seq]
    if kind == 'anytype':
        # items of several types incl. containers: keyed by type() the bucket keys are the classes dict and list themselves
        return [[1, 'a', [1], {'a': 1}][i] for i in seq]
    if kind == 'withnone':
        return [[None, 3, None, 4][i] for i in seq]      # None is an item like any other, also as the FIRST one
    if kind == 'mixed':
        # equal values of different types (1, 1.0, True) and an unordered one (NaN): min / max must return what Python's min() / max() return
        return [[1, 1.0, True, NAN][i] for i in seq]
    raise ValueError(kind)


def scribble(v, depth=0):
    if isinstance(v, dict):
        for x in list(v.values()):
            scribble(x, depth + 1)
        v['__scribbled__'] = depth
    elif isinstance(v, list):
        for x in v:
            scribble(x, depth + 1)
        v.append('__scribbled__')


def run_case(case):
    term, kind, seq_a, seq_b = case
    spec = Group(build(term))
    for n, seq in enumerate((seq_a, seq_a, seq_b)):
        items = mk_items(kind, seq)
        want = ref_group(term, mk_items(kind, seq))
        try:
            got = glom(items, spec)
            err = None
        except Exception as e:
            got, err = None, e
        both_empty = err is None and not got and not want and got in (None, [], {}) and want in (None, [], {})
        if not both_empty and (err is not None or desc(got) != desc(want)):
            where = {'spec': repr(spec), 'items': repr(mk_items(kind, seq)), 'evaluation': n + 1}
            if err is None and has_stop_leaf_under_key(term):
                variant = op_group(term, mk_items(kind, seq))
                if desc(got) == desc(variant):
                    return R({'expected': repr(want), 'observed': repr(got), 'classified': 'key-level STOP', **where}, 'known',
                             sig='group-key-level-stop')
            return R({'expected': repr(want), 'observed': repr(got) if err is None else 'raised %r' % (err,), **where}, 'mismatch')
        if items != mk_items(kind, seq):
            return R({'expected': 'items unchanged', 'observed': repr(items), 'spec': repr(spec)}, 'mutated')
        scribble(got)       # the caller goes on to modify the result it was handed: later evaluations must not see that
    return R(None, 'ok', nontrivial=len(seq_a) > 0, steps=len(seq_a) * 2 + len(seq_b), tags=set(flat_tags(term)))


def flat_tags(term):
    k = term[0]
    if k == 'dict':
        return ['dict', 'key:' + term[1]] + flat_tags(term[2])
    if k == 'limit':
        return ['limit'] + (flat_tags(term[2]) if term[2] else [])
    return [k + ':' + str(term[1])]


INT_LEAVES = [['list', 'T'], ['list', 'dbl'], ['list', 'skipodd'], ['list', 'stop3'], ['agg', 'first'], ['agg', 'max'], ['agg', 'min'],
              ['agg', 'avg'], ['agg', 'sum'], ['agg', 'count'], ['fnleaf', 'neg'], ['agg', 'prod'], ['agg', 'sum_m1']]
INT_KEYS = ['mod2', 'mod3', 'par', 'const', 'skip2']


def gen_specs(tier):
    specs = []
    for leaf in INT_LEAVES:
        specs.append(('ints', leaf))
        for n in (0, 1, 2, 3):
            specs.append(('ints', ['limit', n, leaf]))
    for n in (0, 1, 2, 3):
        specs.append(('ints', ['limit', n, None]))
    for k1 in INT_KEYS:
        for leaf in INT_LEAVES:
            specs.append(('ints', ['dict', k1, leaf]))
            for n in (1, 2):
                specs.append(('ints', ['limit', n, ['dict', k1, leaf]]))       # top-level Limit over a key level
                specs.append(('ints', ['dict', k1, ['limit', n, leaf if leaf[0] == 'list' else None]]))   # nested Limit
    keys2 = INT_KEYS if tier != 'quick' else ['mod2', 'mod3', 'skip2']
    for k1 in keys2:
        for k2 in keys2:
            for leaf in INT_LEAVES:
                specs.append(('ints', ['dict', k1, ['dict', k2, leaf]]))
    for k1, k2, k3 in itertools.product(['mod2', 'mod3'] if tier == 'quick' else ['mod2', 'mod3', 'skip2'], repeat=3):
        for leaf in INT_LEAVES:
            specs.append(('ints', ['dict', k1, ['dict', k2, ['dict', k3, leaf]]]))
    for leaf in (['list', 'T'], ['agg', 'count'], ['agg', 'first']):
        specs.append(('anytype', ['dict', 'type', leaf]))
        specs.append(('anytype', ['dict', 'type', ['dict', 'type', leaf]]))
        specs.append(('anytype', ['dict', 'const', ['dict', 'type', leaf]]))
        specs.append(('withnone', leaf))
        specs.append(('withnone', ['dict', 'isnone', leaf]))
        specs.append(('withnone', ['limit', 2, leaf if leaf[0] == 'list' else None]))
    for leaf in (['agg', 'min'], ['agg', 'max'], ['agg', 'first'], ['list', 'T']):
        specs.append(('mixed', leaf))
        specs.append(('mixed', ['dict', 'const', leaf]))
        specs.append(('mixed', ['dict', 'type', leaf]))       # 1 / 1.0 / True are equal, their keys (int / float / bool) are not
    # list- and dict-valued items
    for leaf, kind in ((['agg', 'flatten'], 'lists'), (['agg', 'merge'], 'dicts'), (['agg', 'count'], 'lists'), (['list', 'T'], 'dicts'), (['agg', 'flatten_tuple'], 'tuples')):
        specs.append((kind, leaf))
        specs.append((kind, ['dict', 'len', leaf]))
        specs.append((kind, ['dict', 'len', ['dict', 'const', leaf]]))
        specs.append((kind, ['limit', 2, ['dict', 'len', leaf]]))
    return specs


def gen_cases(tier):
    seqs = []
    for n in range(0, 5):
        seqs.extend(list(s) for s in itertools.product(range(4), repeat=n))
    cases = []
    for si, (kind, term) in enumerate(gen_specs(tier)):
        use = seqs if kind == 'ints' else [s for s in seqs if len(s) <= 3]
        for i, a in enumerate(use):
            b = use[(i * 11 + si + 3) % len(use)]
            cases.append([term, kind, a, b])
    return cases


# ---- nested Group objects

def menu():
    inner = Group({T % 2: [T]})
    nested = Group({len: [Auto(inner)]})
    items = [[1, 2, 3], [4], [5, 6, 7]]
    want = {3: [{1: [1, 3], 0: [2]}, {1: [5, 7], 0: [6]}], 1: [{0: [4]}]}
    cases = [
        ('group-inside-group-leaf', lambda: glom(items, nested), want),
        ('same-nested-object-again', lambda: (glom(items, nested), glom(items, nested))[1], want),
        ('inner-object-alone-after-nesting', lambda: (glom(items, nested), glom([1, 2, 3], inner))[1], {1: [1, 3], 0: [2]}),
        ('same-aggregator-object-in-two-leaves',
         (lambda: (lambda agg: glom([1, 2, 3, 4], Group({T % 2: agg})))(Max())), {1: 3, 0: 4}),
        ('one-spec-two-levels-shared-leaf-object',
         (lambda: (lambda leaf: glom([1, 2, 3], Group({T % 2: {T % 3: leaf}})))([T])), {1: {1: [1], 0: [3]}, 0: {2: [2]}}),
        ('empty-input-dict', lambda: glom([], Group({T % 2: [T]})), {}),
        ('empty-input-list', lambda: glom([], Group([T])), []),
        ('empty-input-agg', lambda: glom([], Group(Max())), None),
        # an inner Group that is a NON-LAST step of a Pipe evaluated per item of an outer Group: the outer accumulators go on after it
        ('inner-group-then-outer-list', lambda: glom([[1, 2], [3, 4]], Group(Pipe(Group([T]), [T]))), [[1, 2], [3, 4]]),
        ('inner-group-then-outer-buckets', lambda: glom([[1, 2], [3], [5, 6]], Group(Pipe(Group(Count()), {T % 2: [T]}))), {0: [2, 2], 1: [1]}),
        ('inner-group-then-outer-aggregate', lambda: glom([[1, 2], [3], [5, 6]], Group(Pipe(Group(Count()), Sum()))), 5),
        ('inner-group-ends-by-STOP-then-outer-list', lambda: glom([[1, 2], [3], [4, 5, 6]], Group(Pipe(Group(First()), [T]))), [1, 3, 4]),
        ('inner-group-ends-by-limit-then-outer-list', lambda: glom([[1, 2], [3], [4, 5, 6]], Group(Pipe(Group(Limit(1, [T])), [T]))), [[1], [3], [4]]),
        ('inner-group-ends-by-STOP-then-outer-buckets', lambda: glom([[1, 2], [3], [4, 5, 6]], Group(Pipe(Group(First()), {T % 2: [T]}))), {1: [1, 3], 0: [4]}),
        ('inner-group-wrapped-in-auto-then-outer-list', lambda: glom([[1, 2], [3, 4]], Group(Pipe(Auto(Group([T])), [T]))), [[1, 2], [3, 4]]),
        ('group-as-pipe-step-twice',
         (lambda: (lambda g: glom([[1, 2], [3]], [g]))(Group(Count()))), [2, 1]),
    ]
    return cases


def run_menu(idx):
    name, fn, want = menu()[idx]
    try:
        got = fn()
    except Exception as e:
        got = e
    if isinstance(got, Exception) or desc(got) != desc(want):
        return R({'expected': repr(want), 'observed': repr(got), 'name': name}, name)
    return R(None, name, steps=1)


# ---------------------------------------------------------------------------
# ONE aggregator object in two roles over time: a plain fold of a target, and the leaf of a Group

ROLE_OBJECTS = {
    'sum': (lambda: Sum(), [1, 2, 3, 4, 5]),
    'sum-float': (lambda: Sum(init=float), [1, 2, 3, 4, 5]),
    'count': (lambda: Count(), [1, 2, 3, 4, 5]),
    'flatten': (lambda: Flatten(), [[1], [2, 3], [4], [5, 6]]),
    'merge': (lambda: Merge(), [{'a': 1}, {'b': 2, 'c': 0}, {'a': 3}]),
    'fold': (lambda: Fold(T, init=list, op=lambda acc, x: acc + [x]), [1, 2, 3, 4]),
}
ROLE_KEY = lambda x: len(x) % 2 if hasattr(x, '__len__') else x % 2


def run_roles(case):
    name, roles = case
    mk, items = ROLE_OBJECTS[name]
    shared = mk()

    def use(obj, role):
        spec = obj if role == 'plain' else Group({ROLE_KEY: obj}) if role == 'group-leaf' else Group(obj)
        try:
            return ('ok', desc(glom(list(items), spec)))
        except Exception as e:
            return ('err', type(e).__name__)
    for i, role in enumerate(roles):
        want, got = use(mk(), role), use(shared, role)
        if want != got:
            return R({'expected': 'use #%d (%s) of the shared %s object gives what a fresh object gives: %r' % (i + 1, role, name, want),
                      'observed': repr(got), 'roles': roles}, 'roles')
    return R(None, 'roles:%d' % len(roles), nontrivial=len(set(roles)) > 1, steps=len(roles), tags={name} | set(roles))


def gen_roles():
    R_ = ('plain', 'group-leaf', 'group-top')
    seqs = [list(p) for n in (1, 2, 3) for p in itertools.product(R_, repeat=n)]
    return [[name, seq] for name in ROLE_OBJECTS for seq in seqs]


def subs(tier, only=None):
    from ..engine import fast_tracebacks
    fast_tracebacks()
    out = [
        Sub('group-loop', gen_cases(tier), run_case,
            rule='case = (Group spec term, item kind, sequence A, sequence B); one spec object evaluated on A, A, B; each result compared with the '
                 'declarative bucketing loop (key order included); non-trivial = non-empty A',
            min_nontrivial=20000, min_outcomes=2,
            required_tags=['dict', 'limit'] + ['key:' + k for k in INT_KEYS] + ['list:T', 'list:skipodd', 'agg:first', 'agg:max', 'agg:min', 'agg:avg',
                                                                                  'agg:sum', 'agg:count', 'agg:flatten', 'agg:merge']),
        Sub('aggregator-roles', gen_roles(), run_roles,
            rule='case = (Sum | Count | Flatten | Merge | Fold object, sequence of 1-3 uses as plain fold / leaf below a key level / top-level leaf of a Group): '
                 'every use of the ONE object gives what a fresh object gives', min_nontrivial=100, min_outcomes=2,
            required_tags=['plain', 'group-leaf', 'group-top', 'flatten', 'sum']),
        Sub('nested-and-reuse', list(range(len(menu()))), run_menu, rule='fixed menu: Group objects nested in Group leaves and re-used',
            min_nontrivial=5, min_outcomes=5, parallel=False),
    ]
    return [s for s in out if only in (None, s.name)]
