"""C12 - delete removes exactly the addressed element, or nothing.

Enumerated: the spine targets of C11 (depth <= 2, thorough 3) x leaves x every path = existing
prefix of every length + 1-2 further segments (present / absent key, in-range / out-of-range /
non-integer index, present / absent attribute, absent parent) x five spellings (dotted text,
Path, T[..] / T.attr, mixed, S-rooted) x ignore_missing in {False, True} x function and spec
form; deletion faults: tuples, objects whose __delattr__ raises, read-only properties.
Oracle: plain Python `del` on an identically built copy.
"""
import itertools

from glom import glom, delete, Delete, Path, T, S, Spec, GlomError, PathAccessError, PathDeleteError

from .. import mutref as MR
from ..engine import R, Sub
from .c11 import steps_for, mk_path

PROPERTY = 'C12'
LEVEL = 'fault_enumeration'
ASSUMPTIONS = [
    'deletion of one step: mapping -> del d[seg], list -> del l[int(seg)], otherwise delattr; T[..] -> delitem, T.attr -> delattr',
    'missing final element = KeyError / IndexError / AttributeError (and ValueError from int()) of that plain deletion; any other failure is a fault: '
    'some exception or (with ignore_missing) silence is accepted, but the target must be unchanged',
]


LAST_FAULT = [None, None]     # (final op, exception plain Python raised) of the last reference deletion


def ref_delete(root, steps):
    """-> 'ok' | 'missing-parent' | 'missing-final' | 'fault'; performs the deletion on root when ok"""
    cur = root
    for op, arg in steps[:-1]:
        try:
            cur = MR.access(cur, op, arg)
        except MR.AccessFail:
            return 'missing-parent'
    op, arg = steps[-1]
    LAST_FAULT[:] = [op, None]
    try:
        MR.delete_op(cur, op, arg)
    except Exception as e:
        LAST_FAULT[1] = e
    try:
        if LAST_FAULT[1] is not None:
            raise LAST_FAULT[1]
    except (KeyError, IndexError, AttributeError) as e:
        if isinstance(cur, (tuple, MR.BadObj)) or (isinstance(cur, MR.RoObj) and arg == 'ro'):
            return 'fault'
        if op == '[' and isinstance(e, AttributeError):
            return 'fault'
        return 'missing-final'
    except ValueError:
        return 'missing-final' if op == 'P' else 'fault'
    except Exception:
        return 'fault'
    return 'ok'


def run_case(case):
    kinds, leaf, segs, spelling, ignore, form = case
    kinds = kinds.split(',') if kinds else []
    steps = steps_for(spelling, kinds, leaf, segs, None)
    if any(op == '.' and not (isinstance(a, str) and a.isidentifier()) for op, a in steps):
        return R(None, 'n/a', nontrivial=False)
    rt, _ = MR.build(kinds, leaf)
    want = ref_delete(rt, steps)
    t, nodes = MR.build(kinds, leaf)
    before = MR.canon(t)
    path = mk_path(spelling, steps)
    try:
        if spelling == 'sroot':
            res = glom('unused-target', Delete(path, ignore_missing=ignore), scope={'v': t})
            same = res == 'unused-target'
        elif form == 'func':
            res = delete(t, path, ignore_missing=ignore)
            same = res is t
        else:
            res = glom(t, Delete(path, ignore_missing=ignore))
            same = res is t
        got = ('returned', None)
    except Exception as e:
        got = ('raised', e)
    after = MR.canon(t)
    where = {'target': repr(MR.build(kinds, leaf)[0]), 'path': repr(path), 'ignore_missing': ignore, 'form': form, 'spelling': spelling}
    oc = want + (':ignore' if ignore else '')
    if want == 'ok':
        if got[0] != 'returned':
            return R({'expected': 'deletion succeeds -> %r' % (rt,), 'observed': 'raised %r' % (got[1],), **where}, oc)
        if not same:
            return R({'expected': 'the same object is returned', 'observed': repr(res), **where}, oc)
        if after != MR.canon(rt):
            return R({'expected': repr(rt), 'observed': repr(t), **where}, oc)
        return R(None, oc, steps=len(steps), tags={spelling, form} | set(kinds))
    # every other outcome leaves the target unchanged
    if after != before:
        return R({'expected': 'target unchanged (%s)' % want, 'observed': repr(t), **where}, oc)
    if want in ('missing-parent', 'missing-final'):
        if ignore:
            if got[0] != 'returned' or not same:
                return R({'expected': 'silently ignored, same object returned', 'observed': repr(got), **where}, oc)
        else:
            cls = PathAccessError if want == 'missing-parent' else PathDeleteError
            if got[0] != 'raised' or not isinstance(got[1], cls) or not isinstance(got[1], GlomError):
                return R({'expected': cls.__name__, 'observed': repr(got), **where}, oc,
                         sig='%s:%s' % (want, type(got[1]).__name__ if got[0] == 'raised' else 'returned'))
    else:   # fault
        if got[0] != 'raised' and not ignore:
            return R({'expected': 'an exception (the deletion cannot be performed)', 'observed': 'returned %r' % (res,), **where}, oc)
        # ignore_missing only covers MISSING elements.  A present element that cannot be deleted may pass for "missing" only where plain
        # Python raises the same exception class for both (AttributeError for T.attr, KeyError / IndexError for T[..]); handlers reached
        # through path strings are given the benefit of the doubt (any exception of a registered handler counts as "cannot delete")
        fop, fexc = LAST_FAULT
        ambiguous = fop == 'P' or (fop == '.' and isinstance(fexc, AttributeError)) or (fop == '[' and isinstance(fexc, (KeyError, IndexError)))
        if got[0] != 'raised' and ignore and not ambiguous:
            return R({'expected': 'an exception: the element is present and plain Python raises %r, which ignore_missing does not cover' % (fexc,),
                      'observed': 'returned normally, element still in place', **where}, oc)
    return R(None, oc, steps=len(steps), tags={spelling, form} | set(kinds))


EXTRAS = [['k'], ['s'], ['n'], ['0'], ['1'], ['5'], ['-1'], ['-2'], ['-3'], ['x'], ['ro'], ['n', 'm'], ['5', 'k'], ['k', 'k'], ['zz', '0']]
SPELLINGS = ['text', 'path', 'tnat', 'mixed', 'sroot', 'tflip']


def gen_cases(tier):
    maxlen = 2 if tier == 'quick' else 3
    leaves = ['none', 'edict', 'elist', 'zero', 'str']
    cases = []
    for L in range(0, maxlen + 1):
        kind_menu = MR.KINDS if L <= 2 else ['dict', 'list', 'tuple', 'obj', 'badobj']
        for kinds in itertools.product(kind_menu, repeat=L):
            valid = [MR.VALID[k] for k in kinds]
            for leaf in leaves:
                for j in range(0, L + 1):
                    for extra in EXTRAS:
                        segs = valid[:j] + extra
                        for spelling in SPELLINGS:
                            if spelling == 'sroot' and (not kinds or kinds[0] not in ('dict', 'list')):
                                continue
                            for ignore in (False, True):
                                for form in ('func', 'spec'):
                                    cases.append([','.join(kinds), leaf, segs, spelling, ignore, form])
    return cases


def run_reuse(case):
    """one Delete OBJECT applied to a sequence of targets of different kinds; each application must equal a fresh Delete"""
    path, ignore, targets = case
    mk_t = {'dict': lambda: {'a': {'0': 'x', 'k': 1}}, 'list': lambda: {'a': [10, 20]}, 'obj': lambda: {'a': MR.Obj(k=1)}, 'none': lambda: {'a': None},
            'dict2': lambda: {'a': {'k': 2, '1': 'y'}}}
    shared = Delete(path, ignore_missing=ignore)
    for i, tn in enumerate(targets):
        outs = []
        for spec in (Delete(path, ignore_missing=ignore), shared):
            t = mk_t[tn]()
            try:
                glom(t, spec)
                outs.append(('ok', MR.canon(t)))
            except Exception as e:
                outs.append(('err', type(e).__name__, MR.canon(t)))
        if outs[0] != outs[1]:
            return R({'expected': 'application #%d of the re-used Delete equals a fresh Delete: %r' % (i + 1, outs[0]), 'observed': repr(outs[1]),
                      'path': path, 'ignore_missing': ignore, 'targets': targets}, 'reuse')
    return R(None, 'ok', steps=len(targets), tags={'reuse'})


# ---------------------------------------------------------------------------
# path texts with EMPTY segments ('.k', 'k.', '..', ...): a text is split on every dot, the empty string is a key like any other

def mk_empty_tree(depth, counter):
    if depth == 0:
        counter[0] += 1
        return counter[0]
    return {'': mk_empty_tree(depth - 1, counter), 'k': mk_empty_tree(depth - 1, counter)}


def run_empty_segments(case):
    op, segs, style = case
    text = '.'.join(segs)
    ref_t, t = mk_empty_tree(3, [0]), mk_empty_tree(3, [0])
    cur = ref_t
    for sname in segs[:-1]:
        cur = cur[sname]
    if op == 'delete':
        del cur[segs[-1]]
    else:
        cur[segs[-1]] = 'NEW'
    from glom import assign, Assign
    try:
        if op == 'delete':
            res = delete(t, text) if style == 'func' else glom(t, Delete(text))
        else:
            res = assign(t, text, 'NEW') if style == 'func' else glom(t, Assign(text, 'NEW'))
    except Exception as e:
        return R({'expected': repr(ref_t), 'observed': 'raised %r' % (e,), 'text': text, 'op': op}, 'empty-segments')
    if t != ref_t or res is not t:
        return R({'expected': repr(ref_t), 'observed': repr(t), 'text': text, 'op': op}, 'empty-segments')
    return R(None, '%s:%d' % (op, len(segs)), nontrivial=True, steps=len(segs), tags={op, 'leading-empty' if segs[0] == '' else 'leading-k'})


def gen_empty_segments(ops=('delete',)):
    return [[op, list(segs), style] for op in ops for n in (1, 2, 3) for segs in itertools.product(('', 'k'), repeat=n) for style in ('func', 'spec')
            if segs != ('',)]        # the empty TEXT is the empty path, not a path with one empty segment


# ---------------------------------------------------------------------------
# keys given as T / Spec expressions (evaluated against the target, like in a read), also as the LAST segment

import collections as _c
Pt = _c.namedtuple('Pt', 'x y')


class FrozenKey(frozenset):
    def __new__(cls, a, b):           # like a namedtuple: cannot be rebuilt from ONE iterable
        return super().__new__(cls, (a, b))


# ---------------------------------------------------------------------------
# containers with a deletion of their own: the effect of delete() is the effect of the plain `del` - whatever the spelling

class ReadOnlyMap(dict):
    def __delitem__(self, key):
        raise RuntimeError('this mapping is read-only')


class LowerKeys(dict):
    """keys are stored lower-case; del d['A'] removes 'a'"""
    def __delitem__(self, key):
        dict.__delitem__(self, key.lower())


class Audited(dict):
    def __init__(self, *a, **kw):
        dict.__init__(self, *a, **kw)
        self.log = []

    def __delitem__(self, key):
        self.log.append(key)
        dict.__delitem__(self, key)


class AuditedList(list):
    log = ()

    def __delitem__(self, i):
        self.log = self.log + (i,)
        list.__delitem__(self, i)


OWN_DELETION = {
    'read-only-mapping': (lambda: ReadOnlyMap(a=1, b=2), 'a'),
    'lower-casing-mapping': (lambda: LowerKeys(a=1, b=2), 'A'),
    'lower-casing-mapping-missing': (lambda: LowerKeys(a=1), 'Q'),
    'audited-mapping': (lambda: Audited(a=1, b=2), 'a'),
    'audited-list': (lambda: AuditedList([1, 2, 3]), 1),
}


def run_own_deletion(case):
    name, spelling, nested, ignore = case
    mk, key = OWN_DELETION[name]
    ref, obj = mk(), mk()
    try:
        del ref[key]
        want = 'ok'
    except (KeyError, IndexError):
        want = 'ok' if ignore else 'error'
    except Exception:
        want = 'error'
    target = {'o': obj} if nested else obj
    if spelling == 'text':
        path = ('o.%s' % key) if nested else str(key)
    elif spelling == 'path':
        path = Path('o', key) if nested else Path(key)
    else:
        path = T['o'][key] if nested else T[key]
    try:
        delete(target, path, ignore_missing=ignore)
        got = 'ok'
    except GlomError:
        got = 'error'
    except Exception as e:
        got = 'error' if want == 'error' else 'exception %r' % (e,)
    state = lambda o: (list(o.items()) if isinstance(o, dict) else list(o), list(getattr(o, 'log', ())))
    if ignore and spelling in ('text', 'path') and want == 'error' and got == 'ok':
        got = 'error'        # tolerated (see ASSUMPTIONS): a handler reached through a path string may be silent about a fault under ignore_missing
    if got != want or state(obj) != state(ref):
        return R({'expected': '%s, container %r' % (want, state(ref)), 'observed': '%s, container %r' % (got, state(obj)), 'case': name, 'path': repr(path),
                  'ignore_missing': ignore}, 'own-deletion')
    return R(None, want, nontrivial=True, steps=1, tags={name, spelling})


def gen_own_deletion():
    return [[n, sp, nested, ig] for n in OWN_DELETION for sp in ('text', 'path', 'T') for nested in (False, True) for ig in (False, True)]


def dyn_target():
    return {'key': 'x', 'idx': 1, 'first': 'a', 'a': {'x': 5, 'y': 6}, 'l': [10, 20, 30], 'o': MR.Obj(x=1),
            'm': {('x', 2): {'z': 7, 'w': 8}, ('y', 2): {'z': 9}}, 'rows': [{'x': 1, 'y': 2}, {'x': 3, 'y': 4}, {'x': 5}], 'n': 0, 'ykey': 'y',
            'nt': {Pt(1, 2): 'v', Pt(3, 4): 'w', FrozenKey(1, 2): 'fk'}}


DYN_PATHS = {
    # name -> (path builder, plain-Python parent getter, key getter)
    'last-key-from-T': (lambda: T['a'][T['key']], lambda t: t['a'], lambda t: t['key']),
    'last-index-from-T': (lambda: T['l'][T['idx']], lambda t: t['l'], lambda t: t['idx']),
    'last-key-from-Spec': (lambda: T['a'][Spec('key')], lambda t: t['a'], lambda t: t['key']),
    'last-key-from-nested-T': (lambda: T['a'][T['a']['x'] if False else T['key']], lambda t: t['a'], lambda t: t['key']),
    'middle-key-from-T': (lambda: T[T['first']]['y'], lambda t: t[t['first']], lambda t: 'y'),
    'both-from-T': (lambda: T[T['first']][T['key']], lambda t: t[t['first']], lambda t: t['key']),
    'in-Path': (lambda: Path('a', T[T['key']]), lambda t: t['a'], lambda t: t['key']),
    # a Spec as a plain Path part: evaluated when the path is read, so it has to be evaluated when the path is written
    'last-Path-part-is-a-Spec': (lambda: Path('a', Spec('key')), lambda t: t['a'], lambda t: t['key']),
    'middle-Path-part-is-a-Spec': (lambda: Path(Spec('first'), 'y'), lambda t: t[t['first']], lambda t: 'y'),
    # literal keys that are instances of tuple / frozenset SUBCLASSES: passed as they are (they cannot be rebuilt item by item)
    'namedtuple-key-last': (lambda: T['nt'][Pt(1, 2)], lambda t: t['nt'], lambda t: Pt(1, 2)),
    'frozenset-subclass-key-last': (lambda: T['nt'][FrozenKey(1, 2)], lambda t: t['nt'], lambda t: FrozenKey(1, 2)),
    'namedtuple-key-in-Path': (lambda: Path('nt', Pt(3, 4)), lambda t: t['nt'], lambda t: Pt(3, 4)),
    'last-key-missing-name': (lambda: T['a'][T['nokey']], None, None),
    # a spec INSIDE a container key (a tuple key whose first member is fetched from the target), as middle and as last segment
    'middle-tuple-key-holding-T': (lambda: T['m'][(T['key'], 2)]['z'], lambda t: t['m'][(t['key'], 2)], lambda t: 'z'),
    'last-tuple-key-holding-T': (lambda: T['m'][(T['key'], 2)], lambda t: t['m'], lambda t: (t['key'], 2)),
    'root-level-key-from-T': (lambda: T[T['first']], lambda t: t, lambda t: t['first']),
}


def run_dynamic_keys(case):
    from glom import assign, Assign, Spec
    op, pname, style = case
    mkpath, parent_of, key_of = DYN_PATHS[pname]
    ref_t, t = dyn_target(), dyn_target()
    path = mkpath()
    if parent_of is None:
        want = 'error'
    else:
        want = 'ok'
        if op == 'delete':
            del parent_of(ref_t)[key_of(ref_t)]
        else:
            parent_of(ref_t)[key_of(ref_t)] = 'NEW'
    before = MR.canon(t)
    try:
        if op == 'delete':
            res = delete(t, path) if style == 'func' else glom(t, Delete(path))
        else:
            res = assign(t, path, 'NEW') if style == 'func' else glom(t, Assign(path, 'NEW'))
        got = 'ok'
    except Exception as e:
        got, err = 'error', e
    where = {'op': op, 'path': repr(path), 'form': style}
    if want == 'ok':
        if got != 'ok':
            return R({'expected': repr(ref_t), 'observed': 'raised %r' % (err,), **where}, 'dynamic-key')
        if MR.canon(t) != MR.canon(ref_t):
            return R({'expected': repr(ref_t), 'observed': repr(t), **where}, 'dynamic-key')
        if op == 'assign' and glom(t, path) != 'NEW':
            return R({'expected': "reading the path back yields 'NEW'", 'observed': repr(glom(t, path)), **where}, 'dynamic-key')
    else:
        if got == 'ok' or MR.canon(t) != before:
            return R({'expected': 'an error, target unchanged', 'observed': '%s, target %r' % (got, t), **where}, 'dynamic-key')
    return R(None, '%s:%s' % (op, want), nontrivial=True, steps=1, tags={op, pname})


def run_dynamic_wildcard(case):
    """a dynamic key below a wildcard is evaluated ONCE against the target as it was, then applied to every match"""
    from glom import assign, Assign
    op, keykind, style = case
    ref_t, t = dyn_target(), dyn_target()
    if keykind == 'key-from-first-row':
        # the key is computed from data that the operation itself changes (the first row)
        keyspec = Spec(lambda tt: sorted(tt['rows'][0])[0])
        key = sorted(ref_t['rows'][0])[0]
    elif keykind == 'key-from-untouched':
        keyspec, key = T['key'], ref_t['key']
    elif keykind == 'key-missing-in-last-row':
        keyspec, key = T['ykey'], ref_t['ykey']
    else:
        keyspec = Spec(lambda tt: 'x' if len(tt['rows'][0]) == 2 else 'y')
        key = 'x'
    path = Path(Path.from_text('rows.*'), T[keyspec])
    err_want = None
    for row in ref_t['rows']:
        try:
            if op == 'delete':
                del row[key]
            else:
                row[key] = 'NEW'
        except KeyError as e:
            err_want = e
            break
    try:
        if op == 'delete':
            delete(t, path) if style == 'func' else glom(t, Delete(path))
        else:
            assign(t, path, 'NEW') if style == 'func' else glom(t, Assign(path, 'NEW'))
        err_got = None
    except Exception as e:
        err_got = e
    if (err_want is None) != (err_got is None) or MR.canon(t) != MR.canon(ref_t):
        return R({'expected': '%r%s' % (ref_t['rows'], ' then an error' if err_want else ''), 'observed': '%r / %r' % (t['rows'], err_got),
                  'op': op, 'key': keykind, 'path': repr(path)}, 'dynamic-wildcard')
    return R(None, '%s:%s' % (op, 'err' if err_want else 'ok'), nontrivial=True, steps=3, tags={op, keykind})


def gen_dynamic_wildcard(ops):
    return [[op, k, style] for op in ops for k in ('key-from-first-row', 'key-from-untouched', 'key-missing-in-last-row', 'key-depends-on-row-size') for style in ('func', 'spec')]


def gen_dynamic_keys(ops):
    return [[op, p, style] for op in ops for p in DYN_PATHS for style in ('func', 'spec')]


def gen_reuse(tier):
    names = ['dict', 'list', 'obj', 'none', 'dict2']
    return [[path, ignore, list(seq)] for path in ('a.0', 'a.k', 'a.1') for ignore in (False, True) for n in (2, 3) for seq in itertools.product(names, repeat=n)]


def subs(tier, only=None):
    from ..engine import fast_tracebacks
    from . import c14
    fast_tracebacks()
    out = []
    if only in (None, 'delete'):
        out.append(Sub('delete', gen_cases(tier), run_case,
                       rule='case = (spine kinds, leaf, path segments, spelling, ignore_missing, function|spec form); compared with plain `del` on a copy',
                       min_nontrivial=5000, min_outcomes=6, required_tags=SPELLINGS + MR.KINDS + ['func', 'spec']))
    if only in (None, 'delete-reuse'):
        out.append(Sub('delete-reuse', gen_reuse(tier), run_reuse,
                       rule='case = (path, ignore_missing, sequence of 2-3 targets whose parent is a dict / list / object / None): ONE Delete object applied to '
                            'each in turn equals a fresh Delete every time', min_nontrivial=100, min_outcomes=1))
    if only in (None, 'containers-with-their-own-deletion'):
        out.append(Sub('containers-with-their-own-deletion', gen_own_deletion(), run_own_deletion,
                       rule='case = (dict / list subclass overriding __delitem__: read-only, key-normalising, logging; text | Path | T spelling; direct | nested; ignore_missing): '
                            'outcome and final container state (log included) equal those of the plain del', min_nontrivial=50, min_outcomes=2))
    if only in (None, 'dynamic-keys'):
        out.append(Sub('dynamic-keys', gen_dynamic_keys(('delete',)), run_dynamic_keys,
                       rule='case = (path whose last / middle / only key is a T or Spec expression evaluated against the target, function | spec form): the effect '
                            'equals del with the evaluated key',
                       min_nontrivial=15, min_outcomes=2, required_tags=['last-key-from-T', 'middle-key-from-T']))
    if only in (None, 'dynamic-keys-below-wildcards'):
        out.append(Sub('dynamic-keys-below-wildcards', gen_dynamic_wildcard(('delete',)), run_dynamic_wildcard,
                       rule='case = (rows.* followed by a T[spec] key whose spec reads data the deletion changes / leaves alone, function | spec form): the key is '
                            'evaluated once against the target as it was, then every match is treated',
                       min_nontrivial=8, min_outcomes=2, required_tags=['key-from-first-row']))
    if only in (None, 'empty-segments'):
        out.append(Sub('empty-segments', gen_empty_segments(('delete',)), run_empty_segments,
                       rule="case = (path text over the segments '' and 'k', 1-3 segments, function | spec form) on a tree whose every node has the keys '' and 'k': "
                            "the effect equals del on the dict reached by splitting the text on every dot",
                       min_nontrivial=20, min_outcomes=3, required_tags=['leading-empty']))
    if only in (None, 'wildcard-delete'):
        out.append(Sub('wildcard-delete', [c for c in c14.gen_mutate(tier) if c[2].startswith('delete')], c14.run_mutate,
                       rule='case = (tree-shaped target, path with 1-4 wildcards, function|spec form): deletion at every match against a plain loop (shared with C14)',
                       min_nontrivial=10, min_outcomes=2))
    return out
