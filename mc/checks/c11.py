"""C11 - assign obeys the lens laws and fails atomically.

Enumerated: spine targets of depth <= 2 (thorough: 3) over node kinds {dict, list, tuple,
object, object with read-only property, object whose __setattr__ raises} x leaves x every
destination = existing prefix of every length + 1-3 further segments (existing key, new key,
in-range / out-of-range / non-integer index, absent intermediates) x five spellings (dotted
text, Path, T[..] / T.attr, mixed, S-rooted) x values (literal, Spec, self-referential list)
x missing in {None, dict, list, object factory, counting factory, factory raising on its
1st / 2nd call} x function and spec form.  Oracle: plain Python nested assignment on an
identically built copy; snapshots are cycle-safe canonical forms; the original spine nodes
must keep their identity.
"""
import itertools

from glom import glom, assign, Assign, Path, T, S, Spec, Val, GlomError, PathAccessError

from .. import mutref as MR
from ..engine import R, Sub
from .c08 import iso

PROPERTY = 'C11'
LEVEL = 'fault_enumeration'
ASSUMPTIONS = [
    'assignment of one step: mapping -> d[seg]=v, list -> l[int(seg)]=v, otherwise setattr; T[..] -> setitem, T.attr -> setattr',
    'with missing=factory the first inaccessible segment and everything after it is created detached and attached with one final write',
    'wildcard destinations are checked in C14 (wildcard-mutation); atomicity is not claimed there',
    'container values are rebuilt by argument mode: read-back is compared by shape (==), scalars and opaque objects by identity',
]


class Counting:
    def __init__(self, kind, fail_at=None):
        self.kind, self.fail_at, self.calls = kind, fail_at, 0

    def __call__(self):
        self.calls += 1
        if self.fail_at is not None and self.calls == self.fail_at:
            raise RuntimeError('factory refused (call %d)' % self.calls)
        return {'dict': dict, 'list': list, 'obj': MR.Obj}[self.kind]()

    def __repr__(self):
        return 'Counting(%s)' % self.kind


def mk_missing(name):
    if name is None:
        return None, None
    if name in ('dict', 'list'):
        return {'dict': dict, 'list': list}[name], name
    if name == 'obj':
        return MR.Obj, 'obj'
    if name == 'count':
        return Counting('dict'), 'dict'
    if name == 'countobj':
        return Counting('obj'), 'obj'
    if name == 'raise1':
        return Counting('dict', 1), 'dict'
    if name == 'raise2':
        return Counting('dict', 2), 'dict'
    raise ValueError(name)


OPAQUE = MR.Obj(tag='opaque-value')


def mk_value(name, target):
    """-> (value handed to assign, expected stored value, compare by identity?)"""
    if name == 'lit':
        return 'V', 'V', True
    if name == 'opaque':
        return OPAQUE, OPAQUE, True
    if name == 'spec':
        return Spec(Val(('sv', 1))), ('sv', 1), False
    if name == 'T':
        return T, target, True                       # the value depends on the target of the Assign: the target itself is stored
    if name == 'tlist':
        return [T, 'lit'], [target, 'lit'], False
    if name == 'list':
        return [1, [2]], [1, [2]], False
    if name == 'cyc':
        l = [1]
        l.append(l)
        return l, l, False
    raise ValueError(name)


def leaf_kind(leaf):
    return {'edict': 'dict', 'elist': 'list'}.get(leaf, 'scalar')


def steps_for(spelling, kinds, leaf, segs, missing_kind):
    def kind_at(i):
        if i < len(kinds):
            return kinds[i]
        if i == len(kinds):
            return leaf_kind(leaf)
        return missing_kind or 'dict'
    P = [('P', s) for s in segs]
    nat = []
    for i, s in enumerate(segs):
        k = kind_at(i)
        nat.append(MR.natural_op(k if k != 'scalar' else 'dict', s))
    if spelling in ('text', 'path'):
        return P
    if spelling in ('tnat', 'sroot'):
        return nat
    if spelling == 'mixed':
        return P[:-1] + [nat[-1]]
    if spelling == 'tflip':     # T spelling whose LAST step uses the other access kind (T.attr on a mapping / sequence, T[key] on an object)
        op, arg = nat[-1]
        flipped = ('.', arg) if op == '[' else ('[', arg)
        return nat[:-1] + [flipped]
    raise ValueError(spelling)


def mk_path(spelling, steps):
    if spelling == 'text':
        return '.'.join(a for _, a in steps)
    if spelling == 'path':
        return Path(*[a for _, a in steps])
    t = S['v'] if spelling == 'sroot' else T
    if spelling == 'tflip' and any(op == '.' and not isinstance(a, str) for op, a in steps):
        raise ValueError('not spellable')
    if spelling == 'mixed':
        parts = []
        for op, arg in steps:
            parts.append(arg if op == 'P' else (getattr(T, arg) if op == '.' else T[arg]))
        return Path(*parts)
    for op, arg in steps:
        t = getattr(t, arg) if op == '.' else t[arg]
    return t


def ref_assign(root, steps, val, factory):
    cur = root
    for i, (op, arg) in enumerate(steps[:-1]):
        try:
            nxt = MR.access(cur, op, arg)
        except MR.AccessFail:
            if factory is None:
                raise
            new = factory()
            ref_assign(new, steps[i + 1:], val, factory)
            MR.assign_op(cur, op, arg, new)
            return
        cur = nxt
    MR.assign_op(cur, steps[-1][0], steps[-1][1], val)


def ref_read(root, steps):
    cur = root
    for op, arg in steps:
        cur = MR.access(cur, op, arg)
    return cur


def run_case(case):
    kinds, leaf, segs, spelling, vname, mname, form = case
    kinds = kinds.split(',') if kinds else []
    # reference copy
    rt, _ = MR.build(kinds, leaf)
    rfactory, mkind = mk_missing(mname)
    steps = steps_for(spelling, kinds, leaf, segs, mkind)
    if any(op == '.' and not (isinstance(a, str) and a.isidentifier()) for op, a in steps):
        return R(None, 'n/a', nontrivial=False)
    _, rstored, by_id = mk_value(vname, 'unused-target' if spelling == 'sroot' else rt)     # T in the value is the target of the glom call
    try:
        ref_assign(rt, steps, rstored, rfactory)
        want = 'ok'
    except Exception as e:
        want = 'error'
    # implementation
    t, nodes = MR.build(kinds, leaf)
    before = MR.canon(t)
    factory, _ = mk_missing(mname)
    val, stored, by_id = mk_value(vname, 'unused-target' if spelling == 'sroot' else t)
    path = mk_path(spelling, steps)
    kwargs = {} if factory is None else {'missing': factory}
    try:
        if spelling == 'sroot':
            res = glom('unused-target', Assign(path, val, **kwargs), scope={'v': t})
            ret_ok = res == 'unused-target'
        elif form == 'func':
            res = assign(t, path, val, **kwargs)
            ret_ok = res is t
        else:
            res = glom(t, Assign(path, val, **kwargs))
            ret_ok = res is t
        got = 'ok'
    except Exception as e:
        got = 'error'
        err = e
    where = {'target': repr(MR.build(kinds, leaf)[0]), 'path': repr(path), 'value': vname, 'missing': mname, 'form': form, 'spelling': spelling}
    oc = want + (':created' if want == 'ok' and rfactory is not None and getattr(rfactory, 'calls', 0) else '')
    if want == 'ok':
        if got != 'ok':
            return R({'expected': 'assignment succeeds -> %r' % (rt,), 'observed': 'raised %r' % (err,), **where}, oc)
        if not ret_ok:
            return R({'expected': 'the same object is returned', 'observed': repr(res), **where}, oc)
        if MR.canon(t) != MR.canon(rt):
            return R({'expected': repr(rt), 'observed': repr(t), **where}, oc)
        # pre-existing spine nodes keep their identity
        cur = t
        j = 0   # length of the destination's prefix that runs along the spine
        while j < len(kinds) and j < len(segs) - 1 and segs[j] == MR.VALID[kinds[j]]:
            j += 1
        for i, node in enumerate(nodes[:j + 1]):
            if cur is not node:
                return R({'expected': 'existing node %d of the spine is not replaced' % i, 'observed': repr(t), **where}, oc)
            try:
                cur = MR.access(cur, 'P', MR.VALID[kinds[i]])
            except MR.AccessFail:
                break
        # lens law: reading the path back yields the value
        try:
            back = ref_read(t, steps)
        except Exception as e:
            return R({'expected': 'reading the path back yields the value', 'observed': 'read-back failed %r' % (e,), **where}, oc)
        if by_id:
            if back is not stored:
                return R({'expected': 'read-back is the assigned object', 'observed': repr(back), **where}, oc)
        else:
            d = iso(stored, back, {})
            if d:
                return R({'expected': 'read-back equal to %r' % (stored,), 'observed': '%r (%s)' % (back, d), **where}, oc)
        if isinstance(rfactory, Counting) and factory.calls != rfactory.calls:
            return R({'expected': '%d factory calls' % rfactory.calls, 'observed': '%d factory calls' % factory.calls, **where}, oc)
    else:
        if got == 'ok':
            return R({'expected': 'an error (plain Python assignment fails)', 'observed': 'returned %r, target now %r' % (res, t), **where}, oc)
        if MR.canon(t) != before:
            return R({'expected': 'target unchanged after the failure: %r' % (MR.build(kinds, leaf)[0],), 'observed': repr(t),
                      'error': repr(err), **where}, oc)
        if factory is None and not isinstance(err, Exception):
            return R({'expected': 'an exception', 'observed': repr(err), **where}, oc)
    return R(None, oc, nontrivial=True, steps=len(steps), tags={spelling, vname, str(mname), form} | set(kinds))


EXTRAS = [['n'], ['k'], ['s'], ['0'], ['1'], ['-2'], ['-3'], ['-4'], ['-5'], ['5'], ['x'], ['ro'], ['n', 'm'], ['n', '0'], ['5', 'n'], ['zz', 'k'], ['n', 'm', 'o'], ['n', '0', 'p']]
SPELLINGS = ['text', 'path', 'tnat', 'mixed', 'sroot', 'tflip']
MISSING = [None, 'dict', 'list', 'obj', 'count', 'countobj', 'raise1', 'raise2']
VALUES = ['lit', 'opaque', 'spec', 'list', 'cyc', 'T', 'tlist']


def gen_cases(tier):
    maxlen = 2 if tier == 'quick' else 3
    leaves = ['none', 'edict', 'elist'] if tier == 'quick' else ['none', 'edict', 'elist', 'zero', 'str']
    cases = []
    for L in range(0, maxlen + 1):
        kind_menu = MR.KINDS if L <= 2 else ['dict', 'list', 'tuple', 'obj']
        for kinds in itertools.product(kind_menu, repeat=L):
            valid = [MR.VALID[k] for k in kinds]
            for leaf in leaves:
                for j in range(0, L + 1):
                    for extra in EXTRAS:
                        segs = valid[:j] + extra
                        for spelling in SPELLINGS:
                            if spelling == 'sroot' and (not kinds or kinds[0] not in ('dict', 'list')):
                                continue
                            for mname in MISSING:
                                if len(extra) == 1 and j == L and mname in ('count', 'countobj', 'raise2', 'obj') and tier == 'quick':
                                    continue
                                values = VALUES if (L <= 1 or tier != 'quick') else ['lit', 'spec', 'tlist']
                                for vname in values:
                                    forms = ('func', 'spec') if vname == 'lit' else ('func',)
                                    for form in forms:
                                        cases.append([','.join(kinds), leaf, segs, spelling, vname, mname, form])
    return cases


def run_reuse(case):
    """one Assign OBJECT applied to a sequence of targets; each application must equal a fresh Assign"""
    path, vkind, mname, targets = case
    from glom import T as T_
    mk_t = {'empty': lambda: {'x': 'vx0'}, 'has-a': lambda: {'a': {}, 'x': 'vx1'}, 'has-ab': lambda: {'a': {'b': {}}, 'x': 'vx2'},
            'list': lambda: {'a': [{'b': 1}], 'x': 'vx3'}, 'obj': lambda: {'a': MR.Obj(b=MR.Obj()), 'x': 'vx4'}}
    val = {'T': lambda: T_['x'], 'spec': lambda: Spec(('x', lambda v: v + '!')), 'lit': lambda: 'L',
           'cont': lambda: {'n': T_['x'], 'l': [T_['x'], 'lit']}}[vkind]      # a container value: rebuilt for every application
    factory = {None: None, 'dict': dict, 'obj': MR.Obj}[mname]
    kw = {} if factory is None else {'missing': factory}
    shared = Assign(path, val(), **kw)
    for i, tn in enumerate(targets):
        outs = []
        for spec in (Assign(path, val(), **kw), shared):
            t = mk_t[tn]()
            try:
                glom(t, spec)
                outs.append(('ok', MR.canon(t)))
            except Exception as e:
                outs.append(('err', type(e).__name__, MR.canon(t)))
        if outs[0] != outs[1]:
            return R({'expected': 'application #%d of the re-used Assign equals a fresh Assign: %r' % (i + 1, outs[0]), 'observed': repr(outs[1]),
                      'path': path, 'value': vkind, 'missing': mname, 'targets': targets}, 'reuse')
    # the same Assign object applied to all the targets inside ONE glom call (a list spec), when every single application succeeds
    singles = []
    for tn in targets:
        t = mk_t[tn]()
        try:
            glom(t, Assign(path, val(), **kw))
            singles.append(MR.canon(t))
        except Exception:
            singles = None
            break
    if singles is not None:
        ts = [mk_t[tn]() for tn in targets]
        try:
            glom(ts, [shared])
            got = [MR.canon(t) for t in ts]
        except Exception as e:
            got = 'raised %r' % (e,)
        if got != singles:
            return R({'expected': 'glom(targets, [assign]) treats every target like a call of its own: %r' % (singles,), 'observed': repr(got),
                      'path': path, 'value': vkind, 'missing': mname, 'targets': targets}, 'reuse-in-one-call')
        if vkind == 'cont':
            # each target received a container of its own
            vals = []
            for t in ts:
                try:
                    vals.append(glom(t, path))
                except Exception:
                    vals = None
                    break
            if vals and len(set(id(v) for v in vals)) != len(vals):
                return R({'expected': 'every target receives a value container of its own', 'observed': 'one container object assigned to several targets',
                          'path': path, 'missing': mname, 'targets': targets}, 'reuse-in-one-call')
    return R(None, 'ok', steps=len(targets), tags={vkind, str(mname)})


def gen_reuse(tier):
    names = ['empty', 'has-a', 'has-ab', 'list', 'obj']
    cases = []
    for path in ('a.b.c', 'a.b', 'a.0.b', 'q.r'):
        for vkind in ('T', 'spec', 'lit', 'cont'):
            for mname in (None, 'dict', 'obj'):
                for n in (2, 3):
                    for seq in itertools.product(names, repeat=n):
                        if n == 3 and tier == 'quick' and len(set(seq)) == 3:
                            continue
                        cases.append([path, vkind, mname, list(seq)])
    return cases


# ---------------------------------------------------------------------------
# T / Spec keys in segments that missing= has to create: they are read from the target, like every other dynamic key

def created_target():
    return {'key': 'x', 'nk': 'fresh', 'a': {}, 'b': {'x': {}}, 'l': [{}]}


CREATED_PATHS = {   # name -> (path builder, segments as functions of the ORIGINAL target)
    'absent-parent/dynamic-last': (lambda: T['new'][T['key']], [lambda t: 'new', lambda t: t['key']]),
    'absent-parent/dynamic-middle': (lambda: T['new'][T['key']]['c'], [lambda t: 'new', lambda t: t['key'], lambda t: 'c']),
    'present-parent/dynamic-first-absent': (lambda: T['a'][T['key']]['c'], [lambda t: 'a', lambda t: t['key'], lambda t: 'c']),
    'all-present/dynamic-middle': (lambda: T['b'][T['key']]['c'], [lambda t: 'b', lambda t: t['key'], lambda t: 'c']),
    'dynamic-root-segment-absent': (lambda: T[T['nk']]['q']['c'], [lambda t: t['nk'], lambda t: 'q', lambda t: 'c']),
    'two-absent-then-dynamic': (lambda: T['new']['mid'][T['key']]['c'], [lambda t: 'new', lambda t: 'mid', lambda t: t['key'], lambda t: 'c']),
    'in-Path': (lambda: Path('new', T[T['key']], 'c'), [lambda t: 'new', lambda t: t['key'], lambda t: 'c']),
    'Spec-key': (lambda: T['new'][Spec('key')]['c'], [lambda t: 'new', lambda t: t['key'], lambda t: 'c']),
    'tuple-key-holding-T': (lambda: T['new'][(T['key'], 2)]['c'], [lambda t: 'new', lambda t: (t['key'], 2), lambda t: 'c']),
    'Spec-as-Path-part': (lambda: Path('new', Spec('key'), 'c'), [lambda t: 'new', lambda t: t['key'], lambda t: 'c']),
    'Spec-as-last-Path-part': (lambda: Path('new', Spec('key')), [lambda t: 'new', lambda t: t['key']]),
    'two-dynamic': (lambda: T['new'][T['key']][T['nk']], [lambda t: 'new', lambda t: t['key'], lambda t: t['nk']]),
    'below-list-item': (lambda: T['l'][0][T['key']]['c'], [lambda t: 'l', lambda t: 0, lambda t: t['key'], lambda t: 'c']),
}
CREATED_FACTORIES = {
    'dict': lambda: dict,
    # fresh containers that happen to hold the names the key specs read: the keys still come from the target
    'dict-holding-the-key-names': lambda: (lambda: {'key': 'from-the-fresh-container', 'nk': 'from-the-fresh-container'}),
}


def run_created(case):
    pname, fname, style = case
    mkpath, segs = CREATED_PATHS[pname]
    factory = CREATED_FACTORIES[fname]()
    t, ref_t = created_target(), created_target()
    keys = [seg(created_target()) for seg in segs]
    cur = ref_t
    for k in keys[:-1]:
        try:
            cur = cur[k]
        except (KeyError, IndexError):
            cur[k] = factory()
            cur = cur[k]
    cur[keys[-1]] = 'NEW'
    path = mkpath()
    where = {'path': repr(path), 'factory': fname, 'form': style}
    try:
        res = assign(t, path, 'NEW', missing=factory) if style == 'func' else glom(t, Assign(path, 'NEW', missing=factory))
    except Exception as e:
        return R({'expected': repr(ref_t), 'observed': 'raised %r' % (e,), 'target_after': repr(t), **where}, 'created-dynamic-key')
    if res is not t or MR.canon(t) != MR.canon(ref_t):
        return R({'expected': repr(ref_t), 'observed': repr(t), **where}, 'created-dynamic-key')
    return R(None, 'ok', nontrivial=True, steps=len(keys), tags={pname, fname})


# dynamic keys that cannot be evaluated, at several depths: an error, nothing written anywhere
UNRESOLVABLE = {
    'key-fails-at-depth-2': lambda: T['data'][T['cfg']['slots']['cur']]['b']['c'],
    'key-fails-at-depth-1': lambda: T['data'][T['cfg']['nope']]['b']['c'],
    'key-fails-at-depth-0': lambda: T['data'][T['nope']]['b']['c'],
    'last-key-fails-at-depth-2': lambda: T['data']['b'][T['cfg']['slots']['cur']],
    'key-fails-below-absent-parent': lambda: T['fresh'][T['cfg']['slots']['cur']]['b']['c'],
    'Spec-key-fails': lambda: T['data'][Spec('cfg.slots.cur')]['b']['c'],
}


def run_unresolvable(case):
    name, style = case
    mk = lambda: {'cfg': {'slots': {}}, 'data': {'x': {}}, 'b': {}}
    t = mk()
    path = UNRESOLVABLE[name]()
    try:
        assign(t, path, 5, missing=dict) if style == 'func' else glom(t, Assign(path, 5, missing=dict))
        got = 'no error'
    except GlomError as e:
        got = 'error'
    except Exception as e:
        got = 'exception %r' % (e,)
    if got != 'error' or MR.canon(t) != MR.canon(mk()):
        return R({'expected': 'a GlomError (the key cannot be evaluated), target unchanged', 'observed': '%s, target %r' % (got, t), 'path': repr(path), 'form': style},
                 'unresolvable-key')
    return R(None, 'error', nontrivial=True, steps=1, tags={name})


def gen_created():
    return [[p, f, s] for p in CREATED_PATHS for f in CREATED_FACTORIES for s in ('func', 'spec')]


def subs(tier, only=None):
    from ..engine import fast_tracebacks
    from . import c14
    fast_tracebacks()
    out = []
    if only in (None, 'assign'):
        out.append(Sub('assign', gen_cases(tier), run_case,
                       rule='case = (spine kinds, leaf, destination segments, spelling, value kind, missing factory, function|spec form); '
                            'compared with plain nested assignment on a copy (canonical snapshots, spine identities, read-back, factory call count)',
                       min_nontrivial=5000, min_outcomes=3,
                       required_tags=SPELLINGS + VALUES + [str(m) for m in MISSING] + MR.KINDS))
    if only in (None, 'assign-reuse'):
        out.append(Sub('assign-reuse', gen_reuse(tier), run_reuse,
                       rule='case = (path, value kind evaluated per target, missing factory, sequence of 2-3 targets): ONE Assign object applied to each target '
                            'in turn equals a fresh Assign every time', min_nontrivial=100, min_outcomes=1))
    if only in (None, 'dynamic-keys'):
        from . import c12
        out.append(Sub('dynamic-keys', c12.gen_dynamic_keys(('assign',)), c12.run_dynamic_keys,
                       rule='case = (path whose last / middle / only key is a T or Spec expression evaluated against the target, function | spec form): the effect '
                            'equals item assignment with the evaluated key, and reading the same path back yields the value',
                       min_nontrivial=15, min_outcomes=2, required_tags=['last-key-from-T', 'middle-key-from-T']))
    if only in (None, 'dynamic-keys-in-created-segments'):
        out.append(Sub('dynamic-keys-in-created-segments', gen_created(), run_created,
                       rule='case = (path with T / Spec keys at or below the first absent segment, factory (dict | dict that already holds the names the keys read), '
                            'function | spec form) with missing=: equals the plain nested assignment with the keys read from the target',
                       min_nontrivial=40, min_outcomes=1, required_tags=['absent-parent/dynamic-middle', 'dict-holding-the-key-names']))
    if only in (None, 'unresolvable-dynamic-keys'):
        out.append(Sub('unresolvable-dynamic-keys', [[n, st] for n in UNRESOLVABLE for st in ('func', 'spec')], run_unresolvable,
                       rule='case = (path with a T / Spec key whose own evaluation fails at depth 0-2, function | spec form) with missing=dict: an error, nothing written',
                       min_nontrivial=12, min_outcomes=1))
    if only in (None, 'dynamic-keys-below-wildcards'):
        from . import c12
        out.append(Sub('dynamic-keys-below-wildcards', c12.gen_dynamic_wildcard(('assign',)), c12.run_dynamic_wildcard,
                       rule='case = (rows.* followed by a T[spec] key whose spec reads data the assignment changes / leaves alone): the key is evaluated once',
                       min_nontrivial=6, min_outcomes=1, required_tags=['key-from-first-row']))
    if only in (None, 'empty-segments'):
        from . import c12
        out.append(Sub('empty-segments', c12.gen_empty_segments(('assign',)), c12.run_empty_segments,
                       rule="case = (path text over the segments '' and 'k', 1-3 segments, function | spec form) on a tree whose every node has the keys '' and 'k': "
                            "the effect equals item assignment on the dict reached by splitting the text on every dot",
                       min_nontrivial=20, min_outcomes=3, required_tags=['leading-empty']))
    if only in (None, 'wildcard-assign'):
        out.append(Sub('wildcard-assign', [c for c in c14.gen_mutate(tier) if c[2] == 'assign'], c14.run_mutate,
                       rule='case = (tree-shaped target, destination with 1-4 wildcards, function|spec form): assignment at every match, in order, '
                            'against a plain loop (shared with C14)', min_nontrivial=10, min_outcomes=2))
    return out
