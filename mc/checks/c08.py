"""C08 - Modes apply exactly to the wrapped spec; Fill and argument mode keep shape.

Sub-check `lexical-modes`: every tree of depth <= 3 over mode wrappers {Auto, Fill, Match,
Group}, chaining / branching constructs {Pipe, tuple, dict, list, Coalesce, Switch, And, Or}
and two probe leaves (passing / failing), under four outer modes.  A probe is a custom
spec (the documented `glomit` extension protocol) that records the interpreter mode in
force at its position without depending on it, so one evaluation logs the mode at EVERY
position of the tree; the expected log comes from a lexical walk of the term.
Sub-check `plain-probes`: the same question asked with ordinary mode-sensitive specs (a
string, a tuple, a list, a dict) placed after / beside a wrapper.
Sub-check `shapes`: literal container shapes (dict/list/tuple/set/frozenset, nested,
cyclic) with T / Spec / Val / str / int / callable leaves in Fill position and in every
argument position; type, shape, leaves, cyclic structure and non-aliasing are compared.
"""
import itertools
import json

import glom as G
from glom import (glom, T, S, Spec, Val, Auto, Fill, Match, Pipe, Coalesce, Switch, And, Or, Call, Invoke, Assign,
                  Check, GlomError, MatchError)
from glom import MODE, Iter
from glom.grouping import Group

from ..engine import R, Sub

PROPERTY = 'C08'
ASSUMPTIONS = [
    'for a lazy Iter inside a Group that is nested in another Group only the modes are compared (where its items accumulate once the inner Group has finished is unspecified)',
    'the mode reader uses the documented glomit(target, scope) extension protocol and reads scope[glom.MODE] (a public export)',
    'plain containers are only generated where their structure is defined for the lexical mode: dict/tuple/list under Auto and Fill, list under Group, none under Match',
    'shape leaves: T[key], Spec(T[key]) (a Spec around a mode-insensitive sub-spec), Val, str, int, callable; cyclic shapes are built from lists and dicts',
]

LOG = []
MODE_NAMES = {'AUTO': 'auto', 'FILL': 'fill', '_glom_match': 'match', 'GROUP': 'group'}


class ProbeFail(GlomError):
    pass


class Probe:
    def __init__(self, tag, fail=False, consume=False):
        self.tag, self.fail, self.consume = tag, fail, consume

    def glomit(self, target, scope):
        fn = scope[MODE]
        LOG.append((self.tag, MODE_NAMES.get(getattr(fn, '__name__', '?'), getattr(fn, '__name__', '?'))))
        if self.fail:
            raise ProbeFail('probe %s fails' % self.tag)
        if self.consume and hasattr(target, '__next__'):
            return list(target)      # a later step that consumes a lazy iterator built inside an earlier (mode-wrapped) step
        return target

    def __repr__(self):
        return 'Probe(%r%s)' % (self.tag, ', fail' if self.fail else '')


WRAP = {'auto': Auto, 'fill': Fill, 'match': Match, 'group': Group}


def build(term, counter):
    k = term[0]
    if k in ('P', 'F', 'C'):
        counter[0] += 1
        return Probe('p%d' % counter[0], fail=(k == 'F'), consume=(k == 'C'))
    if k in WRAP:
        return WRAP[k](build(term[1], counter))
    if k == 'iter':
        return G.Iter().map(build(term[1], counter))
    kids = [build(x, counter) for x in term[1]] if k != 'switch' else None
    if k == 'pipe':
        return Pipe(*kids)
    if k == 'tuple':
        return tuple(kids)
    if k == 'list':
        return list(kids)
    if k == 'dict':
        return {('k%d' % i): v for i, v in enumerate(kids)}
    if k == 'coalesce':
        return Coalesce(*kids)
    if k == 'and':
        return And(*kids)
    if k == 'or':
        return Or(*kids)
    if k == 'switch':
        return Switch([(build(a, counter), build(b, counter)) for a, b in term[1]])
    raise AssertionError(term)


class RefFail(Exception):
    pass


class LazyMap:
    """like map(): an exception raised for one item does not end the iteration"""
    def __init__(self, fn, items):
        self.fn, self.items = fn, iter(items)

    def __iter__(self):
        return self

    def __next__(self):
        return self.fn(next(self.items))


def iterate(v):
    if hasattr(v, '__next__'):
        return v
    if isinstance(v, (list, tuple)):
        return list(v)
    if isinstance(v, dict):
        return list(v.keys())
    raise RefFail()   # UnregisteredTarget is a GlomError


def walk(term, mode, counter, log, target, acc=None):
    """lexical reference with exact value flow (probes are identities): emits (tag, mode) in
    evaluation order, returns the value, raises RefFail on a GlomError-class failure.
    *acc* maps a plain-list node (by id of the term) to its Group accumulator."""
    k = term[0]
    if k in ('P', 'F', 'C'):
        counter[0] += 1
        log.append(('p%d' % counter[0], mode))
        if k == 'F':
            raise RefFail()
        if k == 'C' and hasattr(target, '__next__'):
            return list(target)
        return target
    if k in ('auto', 'fill', 'match'):
        return walk(term[1], k, counter, log, target, acc)
    if k == 'iter':
        start = numbering(term[1], counter)
        def items(target=target):
            # like the implementation, a target that cannot be iterated is only reported when the first item is asked for
            yield from iterate(target)
        items = items()
        # lazy, like the implementation: the sub-spec runs (and logs) when a later step consumes the iterator - in the mode of ITS position
        return LazyMap(lambda item: walk(term[1], mode, [start], log, item, acc), items)
    if k == 'group':
        start = counter[0]
        counter[0] += count_probes(term[1])
        ret = [] if term[1][0] == 'list' else {} if term[1][0] == 'dict' else None
        my_acc = {}
        for item in iterate(target):
            ret = walk(term[1], 'group', [start], log, item, my_acc)
        return ret
    if k == 'switch':
        pairs = []
        for a, b in term[1]:
            pairs.append((a, numbering(a, counter), b, numbering(b, counter)))
        for a, na, b, nb in pairs:
            try:
                walk(a, mode, [na], log, target, acc)
            except RefFail:
                continue
            return walk(b, mode, [nb], log, target, acc)
        raise RefFail()
    kids = term[1]
    starts = [numbering(kid, counter) for kid in kids]
    ev = lambda i, t: walk(kids[i], mode, [starts[i]], log, t, acc)
    if k == 'pipe' or (k == 'tuple' and mode == 'auto'):
        cur = target
        for i in range(len(kids)):
            cur = ev(i, cur)
        return cur
    if k == 'and':
        res = target
        for i in range(len(kids)):
            res = ev(i, target)
        return res
    if k in ('coalesce', 'or'):
        last = None
        for i in range(len(kids)):
            try:
                return ev(i, target)
            except RefFail as f:
                last = f
        raise last or RefFail()
    if k == 'tuple':
        assert mode == 'fill', (term, mode)
        return tuple(ev(i, target) for i in range(len(kids)))
    if k == 'dict':
        assert mode in ('auto', 'fill'), (term, mode)
        return {('k%d' % i): ev(i, target) for i in range(len(kids))}
    if k == 'list':
        if mode == 'fill':
            return [ev(i, target) for i in range(len(kids))]
        if mode == 'auto':
            assert len(kids) == 1
            out = []
            for item in iterate(target):
                out.append(walk(kids[0], mode, [starts[0]], log, item, acc))
            return out
        assert mode == 'group', (term, mode)
        lst = acc.setdefault(id(term), [])
        for i in range(len(kids)):
            lst.append(ev(i, target))
        return lst
    raise AssertionError(term)


def count_probes(term):
    k = term[0]
    if k in ('P', 'F', 'C'):
        return 1
    if k in WRAP or k == 'iter':
        return count_probes(term[1])
    if k == 'switch':
        return sum(count_probes(a) + count_probes(b) for a, b in term[1])
    return sum(count_probes(x) for x in term[1])


def numbering(term, counter):
    """reserve the tag numbers of *term* (assigned in build order) and return the start"""
    start = counter[0]
    counter[0] += count_probes(term)
    return start


def mk_target():
    n = [0]

    def mk(d):
        if d == 0:
            n[0] += 1
            return n[0]
        return [mk(d - 1), mk(d - 1)]
    return mk(6)


def drain(v):
    """consume lazy iterators left in a result (after the evaluation has returned), recursively"""
    if hasattr(v, '__next__'):
        return ['<iterator>'] + [drain(x) for x in v]
    if isinstance(v, list):
        return [drain(x) for x in v]
    if isinstance(v, tuple):
        return tuple(drain(x) for x in v)
    if isinstance(v, dict):
        return {k: drain(x) for k, x in v.items()}
    return v


def lazy_in_nested_group(term, depth=0):
    k = term[0]
    if k in ('P', 'F', 'C'):
        return False
    if k == 'group':
        return lazy_in_nested_group(term[1], depth + 1)
    if k in ('auto', 'fill', 'match'):
        return lazy_in_nested_group(term[1], depth)
    if k == 'iter':
        return depth >= 2 or lazy_in_nested_group(term[1], depth)
    if k == 'switch':
        return any(lazy_in_nested_group(a, depth) or lazy_in_nested_group(b, depth) for a, b in term[1])
    return any(lazy_in_nested_group(x, depth) for x in term[1])


def run_lexical(case):
    outer, term = case
    full = term if outer == 'auto' else [outer, term]
    full = json.loads(json.dumps(full))     # the generator re-uses sub-term objects; the reference keys Group accumulators by node identity
    spec = build(full, [0])
    want_log = []
    try:
        want = 'ok:' + repr(drain(walk(full, 'auto', [0], want_log, mk_target(), {})))
    except RefFail:
        want = 'fail'
    del LOG[:]
    try:
        got = 'ok:' + repr(drain(glom(mk_target(), spec)))
    except GlomError as e:
        got = 'fail'
    except Exception as e:
        got = 'exc:%r' % (e,)
    log = list(LOG)
    if lazy_in_nested_group(full) and got[:2] == want[:2] and set(log) == set(want_log):
        # a lazy iterator created inside a Group that is itself nested in a Group, consumed after the inner Group has finished: which
        # accumulators its items end up in - and how often a failing item is retried while it is drained - is not specified anywhere; the MODE
        # of every probe (the subject of this property) is still compared
        got = want
        log = want_log
    if log != want_log or got != want:
        diff = [i for i, (a, b) in enumerate(zip(log, want_log)) if a != b][:1]
        return R({'expected': '%s, modes %r' % (want, want_log), 'observed': '%s, modes %r' % (got, log), 'spec': repr(spec),
                  'first_difference_at_probe': diff}, want[:4])
    return R(None, want[:4], nontrivial=any(m != 'auto' for _, m in want_log), steps=len(log),
             tags={m for _, m in want_log} | {term[0]})


LEAVES = [['P'], ['F'], ['C']]
PLAIN_OK = {'auto': ('tuple', 'list', 'dict'), 'fill': ('tuple', 'list', 'dict'), 'group': ('list',), 'match': ()}


CAPS = {'small': 10, 'triple': 4, 'wrapsize': 5, 'smallsize': 3}
_MEMO = {}


def gen_terms(mode, depth):
    """all terms of at most *depth* valid when the lexical mode at their position is *mode*"""
    if depth == 0:
        return list(LEAVES)
    if (mode, depth) in _MEMO:
        return _MEMO[(mode, depth)]
    out = list(LEAVES)
    sub = {m: gen_terms(m, depth - 1) for m in WRAP} if depth > 0 else {}
    same = sub[mode]
    small = same if depth == 1 else [t for t in same if size(t) <= CAPS['smallsize']][:CAPS['small']]
    for w in WRAP:
        for t in (sub[w] if depth == 1 else [x for x in sub[w] if size(x) <= CAPS['wrapsize']]):
            out.append([w, t])
    for t in (same if depth == 1 else [x for x in same if size(x) <= CAPS['wrapsize']]):
        out.append(['iter', t])
    for a, b in itertools.product(small, repeat=2):
        out.append(['pipe', [a, b]])
        out.append(['coalesce', [a, b]])
        out.append(['switch', [[a, b]]])
        out.append(['and', [a, b]])
        out.append(['or', [a, b]])
        for plain in PLAIN_OK[mode]:
            if plain == 'list' and mode == 'auto':
                continue
            out.append([plain, [a, b]])
    if mode == 'auto':
        for a in small:
            out.append(['list', [a]])
    for a, b, c in itertools.product(small[:CAPS['triple']], repeat=3):
        out.append(['pipe', [a, b, c]])
        out.append(['switch', [[a, b], [c, a]]])
    _MEMO[(mode, depth)] = out
    return out


def size(t):
    k = t[0]
    if k in ('P', 'F', 'C'):
        return 1
    if k in WRAP or k == 'iter':
        return 1 + size(t[1])
    if k == 'switch':
        return 1 + sum(size(a) + size(b) for a, b in t[1])
    return 1 + sum(size(x) for x in t[1])


def gen_lexical(tier):
    depth = 3
    _MEMO.clear()
    if tier != 'quick':
        CAPS.update({'small': 40, 'triple': 8, 'wrapsize': 8, 'smallsize': 4})
    else:
        CAPS.update({'small': 16, 'triple': 5, 'wrapsize': 6, 'smallsize': 4})
    cases, seen = [], set()
    for outer in ('auto', 'fill', 'match', 'group'):
        for t in itertools.chain(gen_terms(outer, depth), gen_lazy(outer), gen_spines(outer, 3 if tier == 'quick' else 4)):
            key = outer + json.dumps(t)
            if key not in seen:
                seen.add(key)
                cases.append([outer, t])
    return cases


def gen_lazy(mode):
    """a wrapper around a lazy Iter().map(X) as a NON-LAST link: the iterator is consumed by a later step, or after glom() returned"""
    out = []
    chains = ['pipe', 'tuple'] if mode == 'auto' else ['pipe']
    for w in list(WRAP) + [None]:
        inner_mode = w or mode
        for x in gen_terms(inner_mode, 1):
            if size(x) > 4:
                continue
            lazy = ['iter', x]
            for body in (lazy, ['pipe', [['P'], lazy]], ['coalesce', [['F'], lazy]], ['iter', lazy]):
                wb = [w, body] if w else body
                out.append(wb)
                for ch in chains:
                    out.append([ch, [wb, ['C']]])
                    out.append([ch, [wb, ['P'], ['C']]])
                    out.append([ch, [['P'], wb, ['C'], ['P']]])
                    out.append([ch, [['coalesce', [wb, ['P']]], ['C']]])
                    out.append([ch, [['switch', [[['P'], wb]]], ['C']]])
                    out.append([ch, [wb, ['fill', ['C']]]])
                    out.append([ch, [wb, ['coalesce', [['C'], ['P']]]]])
    return out


def gen_spines(mode, levels):
    """linear nestings (wrapper?, container) x levels with probe siblings: deep alternations the depth-3 product cannot reach"""
    def containers(m):
        cs = ['pipe', 'coalesce', 'iter', None]
        if m in ('auto', 'fill'):
            cs += ['tuple', 'dict', 'list']
        if m == 'group':
            cs += ['list']
        return cs

    def put(c, m, child):
        if c is None:
            return child
        if c == 'iter':
            return ['iter', child]
        if c == 'list' and m == 'auto':
            return ['list', [child]]
        if c == 'list' and m == 'group':
            return ['list', [child]]
        if c == 'coalesce':
            return ['coalesce', [['F'], child]]
        if c in ('pipe', 'tuple') and (c == 'pipe' or m == 'auto'):
            return [c, [['P'], child]]
        return [c, [child, ['P']]]          # fill-mode tuple / list, dict: siblings share the target

    def rec(m, n):
        if n == 0:
            return [['P'], ['fill', ['list', [['P'], ['P']]]], ['fill', ['dict', [['P']]]]]
        out = []
        for w in [None] + list(WRAP):
            m2 = w or m
            for c in containers(m2):
                if w is None and c is None:
                    continue
                for child in rec(m2, n - 1):
                    t = put(c, m2, child)
                    out.append([w, t] if w else t)
        return out
    res = []
    for n in range(1, levels + 1):
        res.extend(rec(mode, n))
    return res


# ---------------------------------------------------------------------------
# plain probes: ordinary mode-sensitive specs after / beside a wrapper

def plain_cases():
    """(name, spec builder, target, expected value or exception class)"""
    t = {'a': 1}
    cases = []
    # after a wrapper in a chain the enclosing (auto) mode is back
    for wname, w in (('Fill', Fill(T)), ('Match', Match(dict)), ('Auto', Auto(T)), ('FillVal', Fill(Val({'a': 1})))):
        for chain in ('tuple', 'pipe'):
            mk = (lambda w, p: (w, p)) if chain == 'tuple' else (lambda w, p: Pipe(w, p))
            cases.append(('%s-then-str-%s' % (wname, chain), mk(w, 'a'), t, 1))
            cases.append(('%s-then-tuple-%s' % (wname, chain), mk(w, ('a', T)), t, 1))
            cases.append(('%s-then-dict-%s' % (wname, chain), mk(w, {'x': 'a'}), t, {'x': 1}))
            cases.append(('%s-then-list-%s' % (wname, chain), mk(w, (T.values(), list, [T])), t, [1]))
    # sibling dict values
    cases.append(('dict-siblings', {'f': Fill('a'), 's': 'a', 'm': Match(dict), 't': ('a', T)}, t, {'f': 'a', 's': 1, 'm': {'a': 1}, 't': 1}))
    # inside Fill, Auto switches back exactly for its sub-spec
    cases.append(('fill-auto-fill', Fill(('a', Auto('a'), 'a')), t, ('a', 1, 'a')))
    cases.append(('fill-pipe-auto', Fill(Pipe(Auto('a'), 'b')), t, 'b'))
    cases.append(('fill-dict', Fill({'x': 'a', 'y': Auto('a'), 'z': (T['a'], 'a')}), t, {'x': 'a', 'y': 1, 'z': (1, 'a')}))
    # Switch / Match-dict values keep the mode of the Switch / pattern, not of the key spec
    cases.append(('match-switch-auto-key', Match(Switch([(Auto('a'), 'a')])), t, MatchError))
    cases.append(('match-switch-auto-key-2', Match(Switch([(Auto('a'), dict)])), t, t))
    cases.append(('switch-fill-key', Switch([(Fill('zz'), 'a')]), t, 1))
    cases.append(('switch-match-key', Switch([(Match(dict), 'a'), (Match(int), Val('i'))]), t, 1))
    cases.append(('switch-other-case', Switch([(Match(int), Fill('x')), (Match(dict), 'a')]), t, 1))
    cases.append(('coalesce-branches', Coalesce(Fill(T['zz']), 'a'), t, 1))
    cases.append(('coalesce-branches-2', Coalesce(Match(int), ('a', T)), t, 1))
    cases.append(('match-dict-value-after-auto-key', Match({Auto(T): {'a': int}}), {'k': {'a': 1}}, {'k': {'a': 1}}))
    cases.append(('match-dict-auto-key-literal-value', Match({Auto(T): 'v'}), {'k': 'v'}, {'k': 'v'}))
    cases.append(('match-dict-auto-key-literal-value-2', Match({Auto(T): 'a'}), {'k': {'a': 'a'}}, MatchError))
    cases.append(('group-then-str', (Group([T]), 'a'), [{'a': 1}], GlomError))
    cases.append(('group-then-index', (Group([T]), '0'), [{'a': 1}], {'a': 1}))
    cases.append(('group-then-pipe', Pipe(Group([T]), ('0', 'a')), [{'a': 1}], 1))
    cases.append(('group-auto-leaf', Group([Auto('a')]), [{'a': 1}, {'a': 2}], [1, 2]))
    cases.append(('group-auto-leaf-then', (Group([Auto('a')]), [lambda x: x + 1]), [{'a': 1}, {'a': 2}], [2, 3]))
    # Switch with plain constants as key specs: what a constant key MEANS depends on the mode in force at the Switch
    keys_by_mode = {'auto': ['a', 'b'], 'fill': ['a', 'b', 1, None, True], 'match': ['a', 'b', 1, None, True]}
    sw_targets = ['a', 'b', 1, None, True, {'a': 'x'}, {'b': 'y'}, 2.5]
    for mode, keys in keys_by_mode.items():
        for k1, k2 in itertools.product(keys, repeat=2):
            if k1 == k2 and type(k1) is type(k2):
                continue
            for tg in sw_targets:
                sw = Switch([(k1, Val('case0')), (k2, Val('case1'))])
                spec = sw if mode == 'auto' else Fill(sw) if mode == 'fill' else Match(sw)
                if mode == 'fill':
                    want = 'case0'              # a constant is a literal: evaluating it never fails
                elif mode == 'match':
                    hit = [i for i, k in enumerate((k1, k2)) if tg == k]
                    want = 'case%d' % hit[0] if hit else MatchError
                else:
                    hit = [i for i, k in enumerate((k1, k2)) if isinstance(tg, dict) and k in tg]
                    want = 'case%d' % hit[0] if hit else MatchError
                cases.append(('switch-constant-keys-%s-%r-%r-on-%r' % (mode, k1, k2, tg), spec, tg, want))
    # the previous chain step left an argument evaluation unfinished (a T subscript after a wildcard that fails for ONE child is dropped
    # silently): the next step is still read in the mode of the chaining spec
    rows = {'rows': [{'k': 'a', 'a': 1}, {}, {'k': 'a', 'a': 3}]}
    star = T['rows'].__star__()[T['k']]
    for mk_chain, cname in ((lambda *st: tuple(st), 'tuple'), (lambda *st: Pipe(*st), 'pipe')):
        cases.append(('after-partly-failed-star-%s-str' % cname, mk_chain(star, '0'), rows, 1))
        cases.append(('after-partly-failed-star-%s-tuple' % cname, mk_chain(star, ('1',)), rows, 3))
        cases.append(('after-partly-failed-star-%s-dict' % cname, mk_chain(star, {'first': '0', 'both': [T]}), rows, {'first': 1, 'both': [1, 3]}))
        cases.append(('after-partly-failed-star-%s-list' % cname, mk_chain(star, [T]), rows, [1, 3]))
    cases.append(('after-partly-failed-star-in-fill', Fill(Pipe(star, (len, 'x'))), rows, (2, 'x')))
    cases.append(('after-failed-coalesce-arg', (Coalesce(T['rows'][T['nokey']], T['rows']), '0.k'), rows, 'a'))
    cases.append(('and-or-siblings', And(Fill(T), 'a'), t, 1))
    cases.append(('or-siblings', Or(Match(int), 'a'), t, 1))
    return cases


def run_plain(idx):
    name, spec, target, want = plain_cases()[idx]
    try:
        got = glom(target, spec)
    except Exception as e:
        got = e
    if isinstance(want, type) and issubclass(want, Exception):
        ok = isinstance(got, want)
    else:
        ok = (not isinstance(got, Exception)) and got == want and type(got) is type(want)
    if not ok:
        return R({'expected': repr(want), 'observed': repr(got), 'spec': repr(spec), 'target': repr(target), 'name': name}, name)
    return R(None, name, steps=1)


# ---------------------------------------------------------------------------
# shapes

class Fnc:
    def __call__(self, t):
        return ('called', t['a'])

    def __repr__(self):
        return 'fnc'


FNC = Fnc()
SHAPE_TARGET = {'a': 1, 'name': 'nm', 'f': lambda *a, **kw: (a, kw)}


def leaf_spec(l):
    k = l[0]
    return {'T': lambda: T[l[1]], 'spec': lambda: Spec(T[l[1]]), 'val': lambda: Val(l[1]), 'str': lambda: l[1],
            'int': lambda: l[1], 'fn': lambda: FNC}[k]()


def leaf_value(l, position):
    k = l[0]
    if k in ('T', 'spec'):
        return SHAPE_TARGET[l[1]]
    if k in ('val', 'str', 'int'):
        return l[1]
    if k == 'fn':
        return ('called', 1) if position == 'fill' else FNC


def build_shape(term, position, spec_nodes, val_nodes, containers):
    """-> (spec object, expected value object); cycles via ['node', label, shape] / ['ref', label]"""
    k = term[0]
    if k == 'ref':
        return spec_nodes[term[1]], val_nodes[term[1]]
    if k == 'node':
        inner = term[2]
        assert inner[0] in ('list', 'dict')
        s, v = ([], []) if inner[0] == 'list' else ({}, {})
        spec_nodes[term[1]], val_nodes[term[1]] = s, v
        containers.append(s)
        fill_container(inner, s, v, position, spec_nodes, val_nodes, containers)
        return s, v
    if k in ('list', 'dict'):
        s, v = ([], []) if k == 'list' else ({}, {})
        containers.append(s)
        fill_container(term, s, v, position, spec_nodes, val_nodes, containers)
        return s, v
    if k in ('tuple', 'set', 'fset'):
        pairs = [build_shape(x, position, spec_nodes, val_nodes, containers) for x in term[1]]
        ty = {'tuple': tuple, 'set': set, 'fset': frozenset}[k]
        s, v = ty(p[0] for p in pairs), ty(p[1] for p in pairs)
        containers.append(s)
        return s, v
    return leaf_spec(term), leaf_value(term, position)


def fill_container(term, s, v, position, spec_nodes, val_nodes, containers):
    if term[0] == 'list':
        for x in term[1]:
            a, b = build_shape(x, position, spec_nodes, val_nodes, containers)
            s.append(a)
            v.append(b)
    else:
        for key, x in term[1]:
            ks, kv = build_shape(key, position, spec_nodes, val_nodes, containers)
            a, b = build_shape(x, position, spec_nodes, val_nodes, containers)
            s[ks] = a
            v[kv] = b


def iso(a, b, memo, path='$'):
    """structural isomorphism incl. sharing / cycles; returns None or a description of the first difference"""
    if isinstance(a, (list, dict, tuple, set, frozenset)):
        if type(a) is not type(b):
            return '%s: type %s != %s' % (path, type(b).__name__, type(a).__name__)
        if id(a) in memo:
            return None if memo[id(a)] == id(b) else '%s: sharing differs' % path
        if isinstance(a, (list, dict)):
            memo[id(a)] = id(b)
        if len(a) != len(b):
            return '%s: length %d != %d' % (path, len(b), len(a))
        if isinstance(a, (list, tuple)):
            for i, (x, y) in enumerate(zip(a, b)):
                d = iso(x, y, memo, '%s[%d]' % (path, i))
                if d:
                    return d
            return None
        if isinstance(a, dict):
            if list(a.keys()) != list(b.keys()):
                return '%s: keys %r != %r' % (path, list(b.keys()), list(a.keys()))
            for key in a:
                d = iso(a[key], b[key], memo, '%s[%r]' % (path, key))
                if d:
                    return d
            return None
        return None if a == b else '%s: %r != %r' % (path, b, a)
    if a is FNC or b is FNC:
        return None if a is b else '%s: %r != %r' % (path, b, a)
    return None if (type(a) is type(b) and a == b) else '%s: %r != %r' % (path, b, a)


def reach_ids(v, out=None):
    out = {} if out is None else out
    if isinstance(v, (list, dict, set)) and id(v) not in out:
        out[id(v)] = v
        for x in (list(v.keys()) + list(v.values()) if isinstance(v, dict) else v):
            reach_ids(x, out)
    elif isinstance(v, (tuple, frozenset)):
        for x in v:
            reach_ids(x, out)
    return out


POSITIONS = ['fill', 'coalesce-default', 'call-arg', 'call-kwarg', 't-call-arg', 's-binding', 'assign-value',
             'match-default', 'switch-default', 'and-default', 'or-default', 'check-default', 'invoke-spec-arg',
             'fill>coalesce-default', 'fill>call-arg', 'fill>call-kwarg', 'fill>s-binding', 'fill>t-call-arg', 'match>call-arg',
             'first-default', 'match>invoke-kwarg-spec', 'group>invoke-kwarg-spec']


class _ItemsOf(dict):
    """the shape target, iterable as a sequence of three items none of which satisfies the key"""
    def __iter__(self):
        return iter([1, 2, 3])


def eval_in_position(position, shape_spec):
    t = dict(SHAPE_TARGET)
    if position == 'fill':
        return glom(t, Fill(shape_spec))
    if position == 'coalesce-default':
        return glom(t, Coalesce('zz', default=shape_spec))
    if position == 'call-arg':
        return glom(t, Call(lambda x: x, args=(shape_spec,)))
    if position == 'call-kwarg':
        return glom(t, Call(lambda x=None: x, kwargs={'x': shape_spec}))
    if position == 't-call-arg':
        return glom(t, T['f'](shape_spec))[0][0]
    if position == 's-binding':
        return glom(t, (S(v=shape_spec), S['v']))
    if position == 'assign-value':
        dest = {}
        glom(t, (S(dest=Val(dest)), Assign(S['dest']['x'], shape_spec)))
        return dest['x']
    if position == 'match-default':
        return glom(t, Match(int, default=shape_spec))
    if position == 'switch-default':
        return glom(t, Switch([(Match(int), Val(0))], default=shape_spec))
    if position == 'and-default':
        return glom(t, And(Match(int), default=shape_spec))
    if position == 'or-default':
        return glom(t, Or(Match(int), Match(str), default=shape_spec))
    if position == 'check-default':
        return glom(t, Check(type=int, default=shape_spec))
    # the same argument positions directly below a Fill wrapper: argument mode is argument mode, whatever mode encloses it
    if position == 'fill>coalesce-default':
        return glom(t, Fill(Coalesce(T['zz'], default=shape_spec)))
    if position == 'fill>call-arg':
        return glom(t, Fill(Call(lambda x: x, args=(shape_spec,))))
    if position == 'fill>call-kwarg':
        return glom(t, Fill([Call(lambda x=None: x, kwargs={'x': shape_spec})]))[0]
    if position == 'fill>s-binding':
        return glom(t, Fill(Pipe(S(v=shape_spec), S['v'])))
    if position == 'fill>t-call-arg':
        return glom(t, Fill({'r': T['f'](shape_spec)}))['r'][0][0]
    if position == 'match>call-arg':
        return glom(t, Match(Call(lambda x: x, args=(shape_spec,))))
    if position == 'first-default':
        # the target handed to the default is the First spec's own target (here: the dict's 'items' list wrapped so that T['a'] still reads 'a')
        from glom.streaming import First
        return glom(t, (lambda d: _ItemsOf(d), First(key=lambda item: False, default=shape_spec)))
    # keyword specs of Invoke are specs of their own, whatever mode the Invoke stands in (the keyword dict is not a dict spec)
    if position == 'match>invoke-kwarg-spec':
        return glom(t, Match(Invoke(lambda x=None: x).specs(x=Fill(shape_spec))))
    if position == 'group>invoke-kwarg-spec':
        return glom([t], Group([Invoke(lambda x=None: x).specs(x=Fill(shape_spec))]))[0]
    if position == 'invoke-spec-arg':
        return glom(t, Invoke(lambda x: x).specs(Fill(shape_spec)))
    raise AssertionError(position)


def run_shape(case):
    position, term = case
    pos_kind = 'fill' if position in ('fill', 'invoke-spec-arg', 'match>invoke-kwarg-spec', 'group>invoke-kwarg-spec') else 'arg'
    containers = []
    try:
        spec, want = build_shape(term, pos_kind, {}, {}, containers)
    except TypeError:   # unhashable member of a set
        return R(None, 'unbuildable', nontrivial=False)
    cyclic = any(x[0] in ('node', 'ref') for x in flatten(term))
    if cyclic and pos_kind == 'fill':
        return R(None, 'n/a', nontrivial=False)
    try:
        got = eval_in_position(position, spec)
    except RecursionError:
        return R({'expected': 'a rebuilt container', 'observed': 'RecursionError', 'position': position, 'shape': term}, 'recursion')
    except Exception as e:
        return R({'expected': repr(want)[:300], 'observed': 'raised %r' % (e,), 'position': position, 'shape': term}, 'raised')
    d = iso(want, got, {})
    if d:
        return R({'expected': repr(want)[:300], 'observed': repr(got)[:300], 'difference': d, 'position': position, 'shape': term}, 'shape')
    if isinstance(got, (list, dict, set)) or (isinstance(got, (tuple, frozenset)) and containers):
        spec_ids = set(id(c) for c in containers if isinstance(c, (list, dict, set)))
        shared = [k for k in reach_ids(got) if k in spec_ids]
        if shared:
            return R({'expected': 'no container of the result is a container of the spec', 'observed': 'shared: %r' % [reach_ids(got)[k] for k in shared],
                      'position': position, 'shape': term}, 'aliasing')
    return R(None, 'cyclic' if cyclic else 'ok', nontrivial=term[0] in ('list', 'dict', 'tuple', 'set', 'fset', 'node'), steps=1,
             tags={position} | {x[0] for x in flatten(term)})


def flatten(term):
    out = [term]
    k = term[0]
    if k in ('list', 'tuple', 'set', 'fset'):
        for x in term[1]:
            out += flatten(x)
    elif k == 'dict':
        for a, b in term[1]:
            out += flatten(a) + flatten(b)
    elif k == 'node':
        out += flatten(term[2])
    return out


SHAPE_LEAVES = [['T', 'a'], ['spec', 'a'], ['val', 7], ['str', 'a'], ['int', 5], ['fn']]
KEY_LEAVES = [['str', 'k'], ['T', 'name'], ['int', 3], ['tuple', [['T', 'a'], ['str', 'lit']]], ['fset', [['T', 'name']]], ['spec', 'name']]


def gen_shapes_terms(depth, wide):
    level = list(SHAPE_LEAVES)
    allt = list(level)
    for d in range(depth):
        kids = level if d == 0 else SHAPE_LEAVES[:3] + [t for t in level if t[0] != 'dict'][:wide] + [t for t in level if t[0] == 'dict'][:3]
        nxt = [['list', []], ['dict', []], ['tuple', []], ['set', []]]
        for a in kids:
            nxt.append(['list', [a]])
            nxt.append(['tuple', [a]])
            if a[0] in ('T', 'spec', 'val', 'str', 'int', 'fn', 'tuple', 'fset'):
                nxt.append(['set', [a]])
                nxt.append(['fset', [a]])
            for key in KEY_LEAVES:
                nxt.append(['dict', [[key, a]]])
        for a, b in itertools.product(kids[:wide], repeat=2):
            nxt.append(['list', [a, b]])
            nxt.append(['tuple', [a, b]])
            nxt.append(['dict', [[['str', 'k'], a], [['str', 'j'], b]]])
        allt.extend(nxt)
        level = nxt
    return allt


CYCLIC = [
    ['node', 'L', ['list', [['T', 'a'], ['ref', 'L']]]],
    ['node', 'D', ['dict', [[['str', 'self'], ['ref', 'D']], [['str', 'v'], ['T', 'a']]]]],
    ['node', 'A', ['list', [['node', 'B', ['list', [['ref', 'A'], ['spec', 'a']]]], ['str', 'x']]]],
    ['list', [['node', 'S', ['list', [['T', 'a']]]], ['ref', 'S']]],
    ['node', 'D', ['dict', [[['str', 'l'], ['node', 'L', ['list', [['ref', 'D'], ['ref', 'L'], ['val', 7]]]]]]]],
    ['tuple', [['node', 'L', ['list', [['ref', 'L'], ['fn']]]], ['int', 5]]],
    ['node', 'L', ['list', [['tuple', [['ref', 'L'], ['T', 'a']]]]]],
]


def gen_shapes(tier):
    depth, wide = (2, 5) if tier == 'quick' else (3, 7)
    terms = gen_shapes_terms(depth, wide)
    cases, seen = [], set()
    for pos in POSITIONS:
        for t in terms + CYCLIC:
            key = pos + json.dumps(t)
            if key not in seen:
                seen.add(key)
                cases.append([pos, t])
    return cases


def subs(tier, only=None):
    from ..engine import fast_tracebacks
    fast_tracebacks()
    out = [
        Sub('lexical-modes', gen_lexical(tier), run_lexical,
            rule='case = (outer mode, tree over wrappers / chains / branches / probes); the log of (probe, mode in force) of ONE evaluation is '
                 'compared with a lexical walk; non-trivial = at least one probe sits in a non-auto mode',
            min_nontrivial=1000, min_outcomes=2,
            required_tags=['auto', 'fill', 'match', 'group', 'pipe', 'tuple', 'dict', 'list', 'coalesce', 'switch', 'and', 'or']),
        Sub('plain-probes', list(range(len(plain_cases()))), run_plain,
            rule='fixed menu: ordinary strings / tuples / lists / dicts placed after or beside each wrapper', min_nontrivial=20, min_outcomes=20,
            parallel=False),
        Sub('shapes', gen_shapes(tier), run_shape,
            rule='case = (position, literal container shape); positions: Fill + 12 argument positions; cyclic shapes in argument positions',
            min_nontrivial=2000, min_outcomes=2, required_tags=POSITIONS + ['list', 'dict', 'tuple', 'set', 'fset', 'node', 'ref']),
    ]
    return [s for s in out if only in (None, s.name)]
