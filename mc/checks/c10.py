"""C10 - M, And, Or, Not, Switch and Check decide like the boolean expressions denoted.

Enumerated: combinator trees of depth <= 3 over an atom menu (M op c for the six operators,
reflected c op M, M(T[k]) op c, bare M / M(T[k]), failing T access; under Match also type,
literal and instrumented predicates), built with constructors and with & | ~, with and
without default; Switch (dict and list form) with 1-3 cases +- default; each in auto mode
and under Match; x targets covering every truth assignment.  Deeper levels keep, per
(constructor, outcome vector over all targets), the first K terms.  Check: all keyword
combinations x sub-spec x targets.  Oracle: a boolean reference evaluator with call logs.
"""
import itertools
import json
import operator

import glom as G
from glom import glom, T, M, And, Or, Not, Switch, Match, Check, Val, GlomError, MatchError, CheckError, PathAccessError
from glom.matching import TypeMatchError

from ..engine import R, Sub

PROPERTY = 'C10'
ASSUMPTIONS = [
    'operands 0, 3, "a"; targets -1, 0, 3, 5, "a" and {"k": v}; a comparison that raises in Python must propagate that class',
    'a failing T access inside M(...) or as a Switch key counts as a GlomError rejection (class PathAccessError), not a MatchError',
    'Check: literal defaults only; when a validator raises and a default is set, CheckError or the default are both accepted',
    'deeper tree levels keep the first K terms per (constructor, outcome vector)',
]

PYOPS = {'==': operator.eq, '!=': operator.ne, '>': operator.gt, '<': operator.lt, '>=': operator.ge, '<=': operator.le}
REFLECT = {'==': '==', '!=': '!=', '>': '<', '<': '>', '>=': '<=', '<=': '>='}

LOG = []


class Pred:
    def __init__(self, name):
        self.name = self.__name__ = name

    def __call__(self, t):
        LOG.append((self.name, repr(t)))
        return pred_impl(self.name, t)

    def __repr__(self):
        return 'pred_' + self.name


class PredicateRefused(Exception):
    pass


def pred_impl(name, t):
    if name == 'pos':
        return isinstance(t, int) and t > 0
    if name == 'raises':
        raise ValueError('predicate raised')
    if name == 'asserts':
        assert isinstance(t, str), 'assert-style validator'       # AssertionError for non-strings: a rejection like any other exception
        return True
    if name == 'raises-own':
        raise PredicateRefused('a user-defined exception class')
    if name == 'none':
        return None
    if name == 'true':
        return True
    if name == 'false':
        return False
    raise AssertionError(name)


TYPES = {'int': int, 'str': str, 'dict': dict}
# outside Match a type is a callable spec like any other: it CONVERTS the target (these two never fail)
CONVS = {'str': str, 'bool': bool}


def build(term):
    k = term[0]
    if k == 'M':
        return {'==': M == term[2], '!=': M != term[2], '>': M > term[2], '<': M < term[2], '>=': M >= term[2], '<=': M <= term[2]}[term[1]]
    if k == 'Mr':   # c op M, built through the reflected operator
        c = term[2]
        return {'==': c == M, '!=': c != M, '>': c > M, '<': c < M, '>=': c >= M, '<=': c <= M}[term[1]]
    if k == 'MT':
        m = M(T[term[1]])
        return {'==': m == term[3], '!=': m != term[3], '>': m > term[3], '<': m < term[3], '>=': m >= term[3], '<=': m <= term[3]}[term[2]]
    if k == 'MTT':       # a sub-spec on BOTH sides of the comparison
        a, b = M(T[term[1]]), M(T[term[3]])
        return {'==': a == b, '!=': a != b, '>': a > b, '<': a < b, '>=': a >= b, '<=': a <= b}[term[2]]
    if k == 'Mbare':
        return M
    if k == 'MTbare':
        return M(T[term[1]])
    if k == 'type':
        return TYPES[term[1]]
    if k == 'conv':
        return CONVS[term[1]]
    if k == 'lit':
        return term[1]
    if k == 'pred':
        return Pred(term[1])
    if k == 'Tacc':
        return T[term[1]]
    if k == 'val':
        return Val(term[1])
    if k in ('and', 'or'):
        kids = [build(x) for x in term[1]]
        dflt = term[2]
        style = term[3] if len(term) > 3 else 'ctor'
        if style == 'op' and dflt is None:
            acc = kids[0]
            for x in kids[1:]:
                acc = (acc & x) if k == 'and' else (acc | x)
            return acc
        cls = And if k == 'and' else Or
        if dflt is None:
            return cls(*kids)
        return cls(*kids, default=build_default(dflt))
    if k == 'not':
        kid = build(term[1])
        return ~kid if (len(term) > 2 and term[2] == 'op') else Not(kid)
    if k == 'switch':
        cases = [(build(a), build(b)) for a, b in term[1]]
        kw = {} if term[2] is None else {'default': build_default(term[2])}
        if term[3] == 'dict':
            return Switch(dict(cases), **kw)
        return Switch(cases, **kw)
    raise AssertionError(term)


def build_default(d):
    if 'lit' in d:
        return d['lit']
    if 'cont' in d:
        return {'got': T[d['cont']], 'l': [], 't': (T[d['cont']], 'lit')}      # a container default: rebuilt with its specs evaluated, like any argument
    return T[d['T']]


def can_op(term):
    """left operand supports & | ~ (M family or combinator)"""
    return term[0] in ('M', 'Mr', 'MT', 'MTT', 'Mbare', 'and', 'or', 'not')


class Reject(Exception):
    def __init__(self, cls):
        self.cls = cls   # 'match' | 'glom'


class PyErr(Exception):
    def __init__(self, cls):
        self.cls = cls


def ref_default(d, target):
    if 'lit' in d:
        return d['lit']
    if 'cont' in d:
        try:
            v = target[d['cont']]
        except (KeyError, IndexError, TypeError):
            raise Reject('glom')
        return {'got': v, 'l': [], 't': (v, 'lit')}
    try:
        return target[d['T']]
    except (KeyError, IndexError, TypeError):
        raise Reject('glom')


def compare(op, a, b):
    try:
        return PYOPS[op](a, b)
    except Exception as e:
        raise PyErr(type(e).__name__)


def ref(term, target, mode, log):
    """-> value, or raises Reject / PyErr"""
    k = term[0]
    if k == 'M':
        if compare(term[1], target, term[2]):
            return target
        raise Reject('match')
    if k == 'Mr':
        if compare(term[1], term[2], target):
            return target
        raise Reject('match')
    if k in ('MT', 'MTbare'):
        try:
            sub = target[term[1]]
        except (KeyError, IndexError, TypeError):
            raise Reject('glom')
        if k == 'MTbare':
            if sub:
                return target
            raise Reject('match')
        if compare(term[2], sub, term[3]):
            return target
        raise Reject('match')
    if k == 'MTT':
        try:
            a, b = target[term[1]], target[term[3]]
        except (KeyError, IndexError, TypeError):
            raise Reject('glom')
        if compare(term[2], a, b):
            return target
        raise Reject('match')
    if k == 'Mbare':
        if target:
            return target
        raise Reject('match')
    if k == 'Tacc':
        try:
            return target[term[1]]
        except (KeyError, IndexError, TypeError):
            raise Reject('glom')
    if k == 'val':
        return term[1]
    if k == 'conv':
        assert mode == 'auto'
        return CONVS[term[1]](target)
    if k == 'type':
        assert mode == 'match'
        if isinstance(target, TYPES[term[1]]):
            return target
        raise Reject('match')
    if k == 'lit':
        assert mode == 'match'
        if target == term[1]:
            return target
        raise Reject('match')
    if k == 'pred':
        assert mode == 'match'
        log.append((term[1], repr(target)))
        try:
            ok = pred_impl(term[1], target)
        except Exception:
            raise Reject('match')
        if ok:
            return target
        raise Reject('match')
    if k == 'and':
        try:
            res = target
            for kid in term[1]:
                res = ref(kid, target, mode, log)
            return res
        except Reject:
            if term[2] is not None:
                return ref_default(term[2], target)
            raise
    if k == 'or':
        try:
            last = None
            for kid in term[1]:
                try:
                    return ref(kid, target, mode, log)
                except Reject as r:
                    last = r
            raise last
        except Reject:
            if term[2] is not None:
                return ref_default(term[2], target)
            raise
    if k == 'not':
        try:
            ref(term[1], target, mode, log)
        except Reject:
            return target
        raise Reject('match')
    if k == 'switch':
        for key, val in term[1]:
            try:
                ref(key, target, mode, log)
            except Reject:
                continue
            return ref(val, target, mode, log)
        if term[2] is not None:
            return ref_default(term[2], target)
        raise Reject('match')
    raise AssertionError(term)


def mk_target(name):
    if name == 'nan':
        return float('nan')      # unordered with every number: <= is NOT the negation of >
    return {'m1': -1, 'z': 0, 'three': 3, 'five': 5, 'a': 'a', 'k3': {'k': 3}, 'k0': {'k': 0}, 'ka': {'k': 'a'}, 'nok': {'j': 1},
            'kj': {'k': 3, 'j': 1}, 'jk': {'k': 1, 'j': 3}, 'false': False, 'none': None}[name]


TARGETS = ['m1', 'z', 'three', 'five', 'a', 'k3', 'k0', 'ka', 'nok', 'nan', 'kj', 'jk', 'false', 'none']


def ref_outcome(term, tname, mode):
    log = []
    try:
        v = ref(term, mk_target(tname), mode, log)
        return ('pass', (type(v).__name__, repr(v))), log
    except Reject as r:
        return ('reject', r.cls), log
    except PyErr as e:
        return ('pyerr', e.cls), log


def run_case(case):
    mode, term, tname = case
    spec = build(term)
    full = Match(spec) if mode == 'match' else spec
    return check_one(mode, term, tname, full)


ORDERS = {'forward': list(range(14)), 'reverse': list(range(13, -1, -1)), 'interleaved': [3, 0, 7, 12, 2, 11, 5, 1, 13, 9, 10, 4, 8, 6, 3, 0]}


def run_history(case):
    """ONE spec object evaluated against a sequence of targets: every call must decide as if it were the first"""
    mode, term, order = case
    spec = build(term)
    full = Match(spec) if mode == 'match' else spec
    n, outcomes = 0, set()
    for i in ORDERS[order]:
        r = check_one(mode, term, TARGETS[i], full)
        if r.viol is not None:
            r.viol['history'] = 'the same spec object was used before on ' + repr([TARGETS[j] for j in ORDERS[order][:ORDERS[order].index(i)]])
            return r
        n += r.steps
        outcomes.add(r.outcome)
    # ONE target object, changed in place between two evaluations of the same spec object: the second evaluation sees the new contents
    def short(f):
        try:
            return ('pass', repr(f()))
        except Exception as e:
            return ('exc', [c.__name__ for c in type(e).__mro__ if c.__name__ in ('MatchError', 'PathAccessError', 'TypeError', 'GlomError')][:2])
    for a, b in ((('k3', 'k0'), ('k0', 'k3'), ('kj', 'jk'), ('k3', 'nok')) if '"MT' in json.dumps(term) else ()):      # terms that read INSIDE the target
        t = mk_target(a)
        short(lambda: glom(t, full))
        t.clear()
        t.update(mk_target(b))
        second = short(lambda: glom(t, full))
        fresh_spec = build(term)
        fresh = short(lambda: glom(mk_target(b), Match(fresh_spec) if mode == 'match' else fresh_spec))
        if second != fresh:
            return R({'expected': 'after the target object was changed in place to %r: %r' % (mk_target(b), fresh), 'observed': repr(second),
                      'spec': repr(full), 'mode': mode, 'history': 'the same spec object had been evaluated on the same object holding %r' % (mk_target(a),)},
                     'stale-target')
    return R(None, '%s:%d outcomes' % (order, len(outcomes)), nontrivial=len(outcomes) > 1, steps=n, tags={term[0], mode, order})


def check_one(mode, term, tname, full):
    want, want_log = ref_outcome(term, tname, mode)
    target = mk_target(tname)
    del LOG[:]
    try:
        res = glom(target, full)
        got = ('pass', (type(res).__name__, repr(res)))
        ident = res is target
    except Exception as e:
        got = ('exc', e)
    log = list(LOG)
    where = {'mode': mode, 'spec': repr(full), 'target': repr(target)}
    oc = want[0] + (':' + want[1] if want[0] != 'pass' else '')
    if want[0] == 'pass':
        if got != want:
            return R({'expected': 'passes with %r' % (want[1],), 'observed': repr(got), **where}, oc)
        if want[1] == (type(target).__name__, repr(target)) and isinstance(target, dict) and not ident and term[0] in ('M', 'Mr', 'MT', 'MTT', 'Mbare', 'MTbare', 'not'):
            return R({'expected': 'the target itself', 'observed': 'an equal copy', **where}, oc)
    elif want[0] == 'reject':
        if got[0] == 'pass':
            return R({'expected': 'rejection (%s)' % want[1], 'observed': 'passed with %r' % (got[1],), **where}, oc)
        e = got[1]
        if want[1] == 'match' and not isinstance(e, MatchError):
            return R({'expected': 'MatchError', 'observed': '%s: %r' % ([c.__name__ for c in type(e).__mro__][:3], e), **where}, oc,
                     sig='reject-class:' + type(e).__name__)
        if want[1] == 'glom' and not isinstance(e, GlomError):
            return R({'expected': 'a GlomError (failing access)', 'observed': repr(e), **where}, oc)
    else:
        if got[0] == 'pass':
            return R({'expected': 'propagates %s' % want[1], 'observed': 'passed with %r' % (got[1],), **where}, oc)
        if want[1] not in [c.__name__ for c in type(got[1]).__mro__]:
            return R({'expected': 'propagates %s' % want[1], 'observed': repr(got[1]), **where}, oc)
    if log != want_log:
        return R({'expected': 'predicate calls %r' % (want_log,), 'observed': 'predicate calls %r' % (log,), **where}, oc)
    return R(None, oc, nontrivial=term[0] not in ('val',), steps=1 + len(log), tags={term[0], mode})


# ---------------------------------------------------------------------------

def atoms(mode):
    out = []
    for op in PYOPS:
        for c in (0, 3, 'a'):
            out.append(['M', op, c])
    for op in ('<', '>=', '=='):
        for c in (0, 3):
            out.append(['Mr', op, c])
    for op in PYOPS:
        out.append(['MT', 'k', op, 3])
    out += [['MT', 'k', '>', 'a'], ['MT', 'zz', '>', 0], ['Mbare'], ['MTbare', 'k'], ['MTbare', 'zz']]
    for op in PYOPS:
        out.append(['MTT', 'k', op, 'j'])
    out.append(['MTT', 'k', '==', 'k'])
    if mode == 'auto':
        out += [['conv', 'str'], ['conv', 'bool']]
    if mode == 'match':
        out += [['type', 'int'], ['type', 'str'], ['type', 'dict'], ['lit', 3], ['lit', 'a'],
                ['pred', 'pos'], ['pred', 'raises'], ['pred', 'none'], ['pred', 'true'], ['pred', 'asserts'], ['pred', 'raises-own']]
    return out


DEFAULTS = [None, {'lit': 'D'}, {'T': 'k'}, {'cont': 'k'}]


def vector(term, mode):
    return tuple(ref_outcome(term, t, mode)[0] for t in TARGETS)


def gen_terms(mode, depth, K):
    level = atoms(mode)
    all_terms = list(level)
    pool = list(level)
    for d in range(1, depth + 1):
        if d > 1:
            buckets = {}
            reps = []
            for t in level:
                key = (t[0], vector(t, mode))
                n = buckets.get(key, 0)
                if n < K:
                    buckets[key] = n + 1
                    reps.append(t)
            pool = atoms(mode)[::3] + reps
        nxt = []
        kids = pool
        width = len(kids) if d == 1 else min(len(kids), 40)
        for a in kids[:width]:
            nxt.append(['not', a])
            if can_op(a):
                nxt.append(['not', a, 'op'])
                # double negation yields the TARGET (not the child's result) and turns every rejection into a MatchError
                nxt.append(['not', ['not', a, 'op'], 'op'])
                nxt.append(['not', ['not', a], 'op'])
            nxt.append(['not', ['not', a]])
            for b in kids[:width]:
                for ctor in ('and', 'or'):
                    for dflt in DEFAULTS:
                        nxt.append([ctor, [a, b], dflt])
                    if can_op(a):
                        nxt.append([ctor, [a, b], None, 'op'])
        for a, b, c in itertools.product(kids[:8], repeat=3):
            nxt.append(['and', [a, b, c], None])
            nxt.append(['or', [a, b, c], None])
            if can_op(a):
                nxt.append(['and', [a, b, c], None, 'op'])
                nxt.append(['or', [a, b, c], None, 'op'])
        # Switch
        vals = [['val', 'A'], ['val', 'B'], ['Tacc', 'k']]
        for a in kids[:width]:
            for dflt in DEFAULTS[:2]:
                for form in ('dict', 'list'):
                    if form == 'list' or build_hashable(a):
                        nxt.append(['switch', [[a, vals[0]]], dflt, form])
            for b in kids[:12] + [x for x in kids[12:width] if x[0] in ('type', 'lit', 'pred', 'conv')]:
                nxt.append(['switch', [[a, vals[0]], [b, vals[1]]], None, 'list'])
                nxt.append(['switch', [[a, vals[2]], [b, vals[1]]], {'lit': 'D'}, 'list'])
                if build_hashable(a) and build_hashable(b) and a != b:
                    nxt.append(['switch', [[a, vals[0]], [b, vals[1]]], None, 'dict'])
        for a, b, c in itertools.product(kids[:6], repeat=3):
            nxt.append(['switch', [[a, vals[0]], [b, vals[1]], [c, vals[2]]], None, 'list'])
        all_terms.extend(nxt)
        level = nxt
    return all_terms


def build_hashable(term):
    return term[0] in ('M', 'Mr', 'MT', 'MTT', 'type', 'lit', 'pred', 'conv')


def gen_cases(tier):
    depth = 2 if tier == 'quick' else 3
    K = 1 if tier == 'quick' else 4
    cases = []
    import json
    for mode in ('auto', 'match'):
        seen = set()
        for term in gen_terms(mode, depth, K):
            key = json.dumps(term)
            if key in seen:
                continue
            seen.add(key)
            for t in TARGETS:
                cases.append([mode, term, t])
    return cases


DERIVATIONS = {
    'base & x': lambda b, x: b & x, 'base | x': lambda b, x: b | x, '~base': lambda b, x: ~b,
    'x & base': lambda b, x: x & b, 'x | base': lambda b, x: x | b, 'base & x & x': lambda b, x: b & x & x,
    '(base | x) | x': lambda b, x: (b | x) | x,
}


def run_derivation(case):
    """building a NEW combinator from an existing one with & | ~ must leave the existing one exactly as it was"""
    mode, base_term, x_term, dname = case
    base = build(base_term)
    before = repr(base)
    n = 0
    for tname in TARGETS:                       # use it first ...
        r = check_one(mode, base_term, tname, Match(base) if mode == 'match' else base)
        if r.viol is not None:
            return r
    try:
        derived = DERIVATIONS[dname](base, build(x_term))
    except TypeError:
        return R(None, 'not-derivable', nontrivial=False)
    if repr(base) != before:
        return R({'expected': 'the operand is unchanged: %s' % before, 'observed': repr(base), 'derivation': dname, 'derived': repr(derived)}, 'operand-mutated')
    for tname in TARGETS:                       # ... and again after something was derived from it
        r = check_one(mode, base_term, tname, Match(base) if mode == 'match' else base)
        n += r.steps
        if r.viol is not None:
            r.viol['history'] = 'after %s was built from it: %r' % (dname, derived)
            return r
    return R(None, dname, nontrivial=True, steps=n, tags={dname, base_term[0], mode})


# ---------------------------------------------------------------------------
# x & m with a left operand that has no & of its own (a literal, a type, Val, a callable): Python asks the RIGHT operand - the result is And(x, m)

def reflected_menu():
    lefts = {'Val(1)': lambda: Val(1), 'Val(None)': lambda: Val(None), 'int-type': lambda: int, 'literal-3': lambda: 3, 'callable': lambda: Pred('true'), 'str': lambda: 'k'}      # (a T expression records & as an operation of its own)
    rights = {'M': lambda: M, 'M>0': lambda: M > 0, 'M==3': lambda: M == 3, 'M(T[k])>0': lambda: M(T['k']) > 0, 'M>0&M<9': lambda: (M > 0) & (M < 9)}
    return lefts, rights


def run_reflected(case):
    lname, rname, mode, tname = case
    lefts, rights = reflected_menu()
    target = mk_target(tname)

    def outcome(spec):
        try:
            v = glom(mk_target(tname), Match(spec) if mode == 'match' else spec)
            return ('ok', type(v).__name__, repr(v))
        except Exception as e:
            return ('err', [c.__name__ for c in type(e).__mro__ if c.__name__ in ('MatchError', 'GlomError', 'TypeError', 'PathAccessError')][:2])
    try:
        written = lefts[lname]() & rights[rname]()
    except TypeError as e:
        return R(None, 'not-supported', nontrivial=False)
    want, got = outcome(And(lefts[lname](), rights[rname]())), outcome(written)
    if want != got:
        return R({'expected': 'x & m is And(x, m): %r' % (want,), 'observed': '%r gives %r' % (written, got), 'target': repr(target), 'mode': mode}, 'reflected')
    return R(None, want[0], nontrivial=True, steps=2, tags={lname, mode})


def gen_reflected():
    lefts, rights = reflected_menu()
    return [[l, r, mode, t] for l in lefts for r in rights for mode in ('auto', 'match') for t in TARGETS]


def gen_derivations(tier):
    cases = []
    for mode in ('auto', 'match'):
        at = atoms(mode)
        bases = [a for a in at if can_op(a)][::4]
        for a, b in itertools.product(at[::5], repeat=2):
            for ctor in ('and', 'or'):
                bases.append([ctor, [a, b], None])
                bases.append([ctor, [a, b], None, 'op'] if can_op(a) else [ctor, [a, b], {'lit': 'D'}])
        for a in at[::5]:
            bases.append(['not', a])
        xs = [at[0], at[7], at[-1]]
        for base in bases:
            for x in xs:
                if not can_op(x):
                    continue
                for dname in DERIVATIONS:
                    cases.append([mode, base, x, dname])
    return cases


def gen_histories(tier):
    import json
    depth = 2 if tier == 'quick' else 3
    K = 1 if tier == 'quick' else 4
    cases = []
    for mode in ('auto', 'match'):
        seen = set()
        for term in gen_terms(mode, depth, K):
            key = json.dumps(term)
            if key in seen or term[0] in ('val', 'lit', 'type', 'conv'):
                continue
            seen.add(key)
            for order in (('forward', 'reverse') if tier == 'quick' else ORDERS):
                cases.append([mode, term, order])
    return cases


# ---------------------------------------------------------------------------
# Check

CHECK_KW = {
    'type': [None, 'int', ('int', 'str')],
    'instance_of': [None, 'int', ('int', 'str')],
    'value': [None, ('equal_to', 3), ('one_of', (3, 'a')),
              # the collection kinds a caller may pass for one_of, with one and with two members
              ('one_of:set', (3,)), ('one_of:set', (3, 'a')), ('one_of:frozenset', (3,)), ('one_of:dict', (3,)), ('one_of:list', (3,)), ('one_of:tuple', (3,))],
    'validate': [None, 'true', 'false', 'none', 'raises', ('pos', 'false'), ('pos', 'true')],
    'default': [None, 'D'],
}
CHECK_TARGETS = {'3': 3, 'a': 'a', 'True': True, 'None': None, 'list': [1], '0': 0}


def ty(x):
    return tuple(TYPES[n] for n in x) if isinstance(x, tuple) else TYPES[x]


def run_check(case):
    kw, spec_name, tname = case
    raw = CHECK_TARGETS[tname]
    target = raw if spec_name == 'T' else {'k': raw}
    kwargs = {}
    if kw['type']:
        kwargs['type'] = ty(kw['type'])
    if kw['instance_of']:
        kwargs['instance_of'] = ty(kw['instance_of'])
    if kw['value']:
        vname, vmembers = kw['value']
        if ':' in vname:
            mk = {'set': set, 'frozenset': frozenset, 'dict': lambda m: dict.fromkeys(m, 'x'), 'list': list, 'tuple': tuple}[vname.split(':')[1]]
            kwargs['one_of'] = mk(vmembers)
        else:
            kwargs[vname] = vmembers
    if kw['validate']:
        v = kw['validate']
        kwargs['validate'] = [Pred(n) for n in v] if isinstance(v, tuple) else Pred(v)
    if kw['default'] is not None:
        kwargs['default'] = kw['default']
    spec = Check(**kwargs) if spec_name == 'T' else Check(spec_name, **kwargs)
    # reference
    if spec_name == 'zz':
        want = ('glomerr',)
    else:
        sub = raw
        fails = []
        raised = False
        if kw['type']:
            types = ty(kw['type'])
            types = types if isinstance(types, tuple) else (types,)
            if type(sub) not in types:
                fails.append('type')
        if kw['instance_of'] and not isinstance(sub, ty(kw['instance_of'])):
            fails.append('instance_of')
        if kw['value']:
            vals = (kw['value'][1],) if kw['value'][0] == 'equal_to' else kwargs['one_of']
            try:
                if sub not in vals:
                    fails.append('value')
            except TypeError:
                # an unhashable target against a set / dict: the membership test itself raises in Python
                return R(None, 'membership-raises', nontrivial=False)
        validators = kw['validate']
        if not any(kw[k] for k in ('type', 'instance_of', 'value', 'validate')):
            if not bool(sub):
                fails.append('validate')
        elif validators:
            for n in (validators if isinstance(validators, tuple) else (validators,)):
                try:
                    if pred_impl(n, sub) is False:
                        fails.append('validate')
                except Exception:
                    fails.append('validate-raised')
                    raised = True
        if not fails:
            want = ('pass',)
        elif kw['default'] is not None:
            want = ('default-or-error',) if raised else ('default',)
        else:
            want = ('checkerror',)
    del LOG[:]
    try:
        res = glom(target, spec)
        got = ('value', res)
    except Exception as e:
        got = ('exc', e)
    where = {'spec': repr(spec), 'target': repr(target)}
    ok = True
    if want[0] == 'pass':
        ok = got[0] == 'value' and got[1] is target
        exp = 'the original target'
    elif want[0] == 'default':
        ok = got[0] == 'value' and got[1] == kw['default'] and got[1] is not target
        exp = 'the default %r' % kw['default']
    elif want[0] == 'default-or-error':
        ok = (got[0] == 'value' and got[1] == kw['default']) or (got[0] == 'exc' and isinstance(got[1], CheckError))
        exp = 'the default or CheckError'
    elif want[0] == 'checkerror':
        ok = got[0] == 'exc' and isinstance(got[1], CheckError) and isinstance(got[1], GlomError)
        exp = 'CheckError'
    else:
        ok = got[0] == 'exc' and isinstance(got[1], GlomError)
        exp = 'a GlomError from the failing sub-spec'
    if not ok:
        return R({'expected': exp, 'observed': repr(got), **where}, want[0])
    return R(None, want[0], nontrivial=True, steps=1, tags={k for k in kw if kw[k]})


def gen_check(tier):
    cases = []
    keys = list(CHECK_KW)
    for combo in itertools.product(*[CHECK_KW[k] for k in keys]):
        kw = dict(zip(keys, combo))
        for spec_name in ('T', 'k', 'zz'):
            for t in CHECK_TARGETS:
                if spec_name == 'zz' and t != '3':
                    continue
                cases.append([kw, spec_name, t])
    return cases


def subs(tier, only=None):
    from ..engine import fast_tracebacks
    fast_tracebacks()
    out = [
        Sub('combinators', gen_cases(tier), run_case,
            rule='case = (mode auto|match, combinator term, target); terms enumerated level by level, deeper levels built from the first K '
                 'terms per (constructor, outcome vector over the 14 targets)',
            min_nontrivial=5000, min_outcomes=4,
            required_tags=['M', 'Mr', 'MT', 'Mbare', 'and', 'or', 'not', 'switch', 'auto', 'match']),
        Sub('reflected-operators', gen_reflected(), run_reflected,
            rule='case = (left operand without an & of its own: Val / type / literal / callable, right operand from the M family, mode, target): '
                 'x & m evaluates like And(x, m) - same order, same result', min_nontrivial=300, min_outcomes=2),
        Sub('reuse-histories', gen_histories(tier), run_history,
            rule='case = (mode, combinator term, order): ONE spec object evaluated against all fourteen targets in forward and reverse order (every ordered pair of targets occurs; '
                 'thorough: also an interleaved order with repeats); every call is compared with the reference for that target alone',
            min_nontrivial=5000, min_outcomes=6, required_tags=['switch', 'and', 'or', 'not', 'match', 'auto', 'reverse']),
        Sub('operator-derivations', gen_derivations(tier), run_derivation,
            rule='case = (mode, existing combinator, operand, derivation with & | ~ on either side): the existing object is evaluated on all targets, a new '
                 'combinator is built from it, then it is evaluated again: same repr, same decisions',
            min_nontrivial=2000, min_outcomes=5, required_tags=['base & x', 'base | x', 'and', 'or']),
        Sub('check', gen_check(tier), run_check,
            rule='case = (Check keyword combination, sub-spec T|k|missing, target)', min_nontrivial=500, min_outcomes=4,
            required_tags=['type', 'instance_of', 'value', 'validate', 'default']),
    ]
    return [s for s in out if only in (None, s.name)]
