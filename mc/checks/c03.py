"""C03 - Auto-mode restructuring is compositional in its sub-specs.

Enumerated: spec terms generated type-directed from the shape of the target, depth <= 3 (wider child menus in the thorough tier), over {path, T, dict (1-2 entries, computed keys, dict/OrderedDict),
list, tuple, Pipe, instrumented callables (incl. SKIP / STOP producing and raising ones),
Val, Spec, Coalesce with every option combination, Call, Invoke chains, Ref incl.
recursion}.  Children of a composite at depth d are all leaves plus, per (constructor,
outcome class), the first K composites of depth d-1 (the pruning rule is part of the
definition of the space; everything inside it is enumerated).
Oracle 1: reference interpreter (mc/refauto.py) - value, container type, key order and the
call log of the instrumented callables.  Oracle 2: model-free laws on the implementation.
"""
from collections import OrderedDict

import glom as G
from glom import glom, T, Spec, Val, Coalesce, Call, Invoke, Ref, Pipe, GlomError

from .. import refauto as RA
from ..engine import R, Sub

PROPERTY = 'C03'
ASSUMPTIONS = [
    'STOP is never placed directly as a dict value (the statement is silent there); [] specs and unresolved Refs are outside the alphabet',
    'children of deeper composites are pruned to the first K per (constructor, outcome class); see module docstring',
    'instrumented callables are pure apart from logging',
]


class Fn:
    """instrumented callable handed to glom; logs like the reference's fn_impl"""
    def __init__(self, name, ctx):
        self.name, self.ctx = name, ctx
        self.__name__ = name

    def __call__(self, *a, **kw):
        conv = lambda v: RA.SKIP if v is G.SKIP else RA.STOP if v is G.STOP else v
        r = RA.fn_impl(self.name, self.ctx)(*[conv(x) for x in a], **{k: conv(v) for k, v in kw.items()})
        return G.SKIP if r is RA.SKIP else G.STOP if r is RA.STOP else r

    def __repr__(self):
        return 'fn_' + self.name


def to_glom_lit(v):
    v = RA.lit(v)
    return G.SKIP if v is RA.SKIP else G.STOP if v is RA.STOP else v


def build_T(ops):
    t = T
    for op, arg in ops:
        t = getattr(t, arg) if op == '.' else t[arg]
    return t


def build_arg(term, ctx):
    if 'lit' in term:
        return to_glom_lit(term['lit'])
    if 'T' in term:
        return build_T(term['T'])
    if 'spec' in term:
        return Spec(build(term['spec'], ctx))
    if 'fn' in term:
        return Fn(term['fn'], ctx)
    if 'list' in term:
        return [build_arg(x, ctx) for x in term['list']]
    if 'tuple' in term:
        return tuple(build_arg(x, ctx) for x in term['tuple'])
    if 'dict' in term:
        return {k: build_arg(v, ctx) for k, v in term['dict']}
    raise AssertionError(term)


def build(term, ctx):
    k = term[0]
    if k == 'path':
        return term[1]
    if k == 'T':
        return build_T(term[1])
    if k == 'dict':
        d = RA.DICT_KINDS[term[2]]()
        for key, sub in term[1]:
            d[key[1] if key[0] == 'k' else build_T(key[1])] = build(sub, ctx)
        return d
    if k == 'list':
        return [build(term[1], ctx)]
    if k == 'tuple':
        return tuple(build(s, ctx) for s in term[1])
    if k == 'pipe':
        return Pipe(*[build(s, ctx) for s in term[1]])
    if k == 'fn':
        return Fn(term[1], ctx)
    if k == 'val':
        return Val(to_glom_lit(term[1]))
    if k == 'spec':
        return Spec(build(term[1], ctx))
    if k == 'coalesce':
        opts = term[2]
        kw = {}
        if 'default' in opts:
            kw['default'] = build_arg(opts['default'], ctx)
        if 'default_factory' in opts:
            kw['default_factory'] = Fn(opts['default_factory'], ctx)
        if 'skip' in opts:
            sk = opts['skip']
            kw['skip'] = Fn(sk['fn'], ctx) if 'fn' in sk else tuple(sk['tuple']) if 'tuple' in sk else sk['lit']
        if 'skip_exc' in opts:
            kw['skip_exc'] = {'glom': GlomError, 'boom': RA.Boom, 'both': (GlomError, RA.Boom), 'none': ()}[opts['skip_exc']]      # (): skip nothing
        return Coalesce(*[build(s, ctx) for s in term[1]], **kw)
    if k == 'call':
        func = Fn(term[1][1], ctx) if term[1][0] == 'fn' else build_T(term[1][1])
        return Call(func, args=tuple(build_arg(a, ctx) for a in term[2]),
                    kwargs={n: build_arg(a, ctx) for n, a in term[3].items()})
    if k == 'invoke':
        inv = Invoke(Fn(term[1][1], ctx)) if term[1][0] == 'fn' else Invoke.specfunc(build(term[1], ctx))
        for st in term[2]:
            if st[0] == 'C':
                inv = inv.constants(*[to_glom_lit(a) for a in st[1]], **{n: to_glom_lit(v) for n, v in st[2].items()})
            elif st[0] == 'S':
                inv = inv.specs(*[build(a, ctx) for a in st[1]], **{n: build(v, ctx) for n, v in st[2].items()})
            else:
                inv = inv.star(args=None if st[1] is None else build(st[1], ctx),
                               kwargs=None if st[2] is None else build(st[2], ctx))
        return inv
    if k == 'ref':
        return Ref(term[1], build(term[2], ctx)) if len(term) > 2 else Ref(term[1])
    raise AssertionError(term)


# ---------------------------------------------------------------------------
# targets

def mk_target(name):
    if name == 'rec':
        return {'a': 1, 'b': [1, 2, 3], 'c': {'d': 2}, 'f': 'txt'}
    if name == 'nested':
        return [1, [2, [3, 4]], 5]
    if name == 'ints':
        return [1, 2, 3, 4]
    if name == 'int':
        return 2
    if name == 'sub':
        return {'d': 2}
    raise ValueError(name)


SHAPES = {'rec': 'rec', 'nested': 'nested', 'ints': 'ints', 'int': 'int', 'sub': 'sub'}


def graph_ids(v, out=None):
    out = set() if out is None else out
    if isinstance(v, (dict, list)) and id(v) not in out:
        out.add(id(v))
        for x in (v.values() if isinstance(v, dict) else v):
            graph_ids(x, out)
    return out


def norm(v):
    """value -> comparable description incl. container types and key order"""
    if v is RA.SKIP or v is G.SKIP:
        return 'SKIP'
    if v is RA.STOP or v is G.STOP:
        return 'STOP'
    if isinstance(v, dict):
        return (type(v).__name__, tuple((norm(k), norm(x)) for k, x in v.items()))
    if isinstance(v, (list, tuple)):
        return (type(v).__name__, tuple(norm(x) for x in v))
    return (type(v).__name__, repr(v))


def outcome_ref(term, target):
    ctx = RA.Ctx(graph_ids(target))
    try:
        val = RA.ev(term, target, {}, ctx)
        return ('ok', norm(val), val), ctx.log
    except RA.RefErr as e:
        return ('glomerr', e.cls, None), ctx.log
    except RA.Boom:
        return ('boom', None, None), ctx.log
    except RecursionError:
        return ('recursion', None, None), ctx.log
    except Exception as e:
        return ('pyerr', type(e).__name__, None), ctx.log


def outcome_impl(term, target):
    ctx = RA.Ctx(graph_ids(target))
    spec = build(term, ctx)
    try:
        val = glom(target, spec)
        return ('ok', norm(val), val), ctx.log, spec
    except RecursionError:
        return ('recursion', None, None), ctx.log, spec
    except Exception as e:
        if isinstance(e, RA.Boom):
            return ('boom', None, None), ctx.log, spec
        if isinstance(e, GlomError):
            names = [c.__name__ for c in type(e).__mro__]
            builtin = [c.__name__ for c in type(e).__mro__ if c.__module__ == 'builtins' and c not in (Exception, BaseException, object)]
            wrapped = [n for n in names if n.startswith('GlomError.wrap')]
            if wrapped:
                return ('pyerr', builtin[0] if builtin else names[0], None), ctx.log, spec
            return ('glomerr', names, None), ctx.log, spec
        return ('pyerr', type(e).__name__, None), ctx.log, spec


def compare(ref, got):
    if ref[0] != got[0]:
        return False
    if ref[0] == 'ok':
        return ref[1] == got[1]
    if ref[0] == 'glomerr':
        return ref[1] in got[1]
    if ref[0] == 'pyerr':
        return True   # some Python error from user-level code on both sides (e.g. inc on a list); class not compared
    return True


def run_case(case):
    tname, term = case
    t_ref, t_impl = mk_target(tname), mk_target(tname)
    ref, ref_log = outcome_ref(term, t_ref)
    before = norm(t_impl)
    got, log, spec = outcome_impl(term, t_impl)
    if norm(t_impl) != before:
        return R({'expected': 'target unchanged %r' % (mk_target(tname),), 'observed': repr(t_impl), 'target': tname, 'spec': repr(spec)[:500]}, 'mutated')
    where = {'target': tname, 'spec': repr(spec)[:500]}
    oc = ref[0] if ref[0] != 'glomerr' else 'glomerr:' + ref[1]
    if not compare(ref, got):
        return R({'expected': repr(ref[:2])[:600], 'observed': repr(got[:2])[:600], **where}, oc)
    # call logs: ids refer to different target copies -> compare positions via per-copy id ranks
    if relog(ref_log, t_ref) != relog(log, t_impl):
        return R({'expected': 'call log %r' % (relog(ref_log, t_ref),), 'observed': 'call log %r' % (relog(log, t_impl),), **where}, oc)
    return R(None, oc, nontrivial=True, steps=max(1, len(log)), tags={term[0]})


def relog(log, target):
    order = {}

    def walk(v):
        if isinstance(v, (dict, list)) and id(v) not in order:
            order[id(v)] = len(order)
            for x in (v.values() if isinstance(v, dict) else v):
                walk(x)
    walk(target)

    def rk(key):
        return ('node', order.get(key[1])) if key[0] == 'id' else key
    return [(n, tuple(rk(a) for a in args), tuple((k, rk(v)) for k, v in kw)) for n, args, kw in log]


# ---------------------------------------------------------------------------
# type-directed generator

SK, ST = {'$': 'SKIP'}, {'$': 'STOP'}


def leaves(shape):
    """(term, result shape) pairs; result shape in {int, ints, rec, nested, sub, str, SKIP, STOP, err, any}"""
    out = [(['T', []], shape), (['fn', 'ident'], shape), (['val', 5], 'int'), (['val', SK], 'SKIP'), (['val', ST], 'STOP'),
           (['fn', 'to_skip'], 'SKIP'), (['fn', 'to_stop'], 'STOP'), (['fn', 'raise'], 'err'), (['path', 'zz'], 'err'),
           (['spec', ['T', []]], shape)]
    if shape == 'int':
        out += [(['fn', 'inc'], 'int'), (['fn', 'skip_if_big'], 'int'), (['fn', 'stop_if_big'], 'int'), (['val', 'lit'], 'str')]
    if shape == 'rec':
        out += [(['path', 'a'], 'int'), (['path', 'b'], 'ints'), (['path', 'c.d'], 'int'), (['path', 'c'], 'sub'),
                (['T', [['[', 'a']]], 'int'), (['T', [['[', 'b'], ['[', 0]]], 'int'), (['path', 'b.1'], 'int'),
                (['path', 'c.zz'], 'err'), (['fn', 'len'], 'int'), (['path', 'f'], 'str')]
    if shape == 'sub':
        out += [(['path', 'd'], 'int'), (['T', [['[', 'd']]], 'int')]
    if shape in ('ints', 'nested'):
        out += [(['fn', 'len'], 'int'), (['T', [['[', 0]]], 'int'), (['path', '0'], 'int'), (['path', '9'], 'err')]
    return out


COAL_OPTS = [
    {}, {'default': {'lit': 'dflt'}}, {'default': {'T': []}}, {'default': {'list': [{'T': []}, {'lit': 'x'}]}},
    {'default_factory': 'mk'}, {'skip': {'lit': 1}}, {'skip': {'tuple': [1, 2, 5]}}, {'skip': {'fn': 'is_odd'}},
    {'skip_exc': 'boom'}, {'skip_exc': 'both'}, {'skip': {'lit': 1}, 'default': {'lit': None}},
    {'skip_exc': 'both', 'default_factory': 'mk'}, {'default': {'lit': SK}},
    {'skip_exc': 'none'}, {'skip_exc': 'none', 'default': {'lit': 'dflt'}},
]


CAP = {'dict2': 12, 'tup2': 14, 'pipe': 4, 'tup3': 3, 'coal1': 14, 'coal2': 8, 'misc': 8}


def composites(shape, kids, kids_of):
    """kids: list of (term, result shape) usable as children on *shape*; kids_of(shape) likewise for other shapes"""
    out = []
    vals = [k for k in kids if k[1] != 'STOP']
    # dict specs
    for t, rs in vals:
        out.append((['dict', [[['k', 'x'], t]], 'dict'], 'any'))
    for (t1, r1) in vals[:CAP['dict2']]:
        for (t2, r2) in vals[:CAP['dict2']]:
            out.append((['dict', [[['k', 'x'], t1], [['k', 'y'], t2]], 'dict'], 'any'))
    for t, rs in vals[:6]:
        out.append((['dict', [[['k', 'y'], t], [['k', 'x'], ['T', []]]], 'odict'], 'any'))
        # dict specs of other mapping types: "a dict of the same type"
        for kind in ('record', 'myod', 'counter', 'ddict'):
            out.append((['dict', [[['k', 'y'], t], [['k', 'x'], ['T', []]]], kind], 'any'))
        if shape == 'rec':
            out.append((['dict', [[['kT', [['[', 'f']]], t], [['k', 'lit'], ['T', []]]], 'dict'], 'any'))
            out.append((['dict', [[['k', 'first'], ['val', 1]], [['kT', [['[', 'f']]], t], [['k', 'last'], ['val', 3]]], 'odict'], 'any'))
            out.append((['dict', [[['kT', [['[', 'f']]], t]], 'dict'], 'any'))
            out.append((['dict', [[['kT', [['[', 'zz']]], t]], 'dict'], 'any'))
    # tuples / pipes: second step generated for the first step's result shape
    for t1, r1 in kids:
        nxt_shape = r1 if r1 in ('int', 'ints', 'rec', 'nested', 'sub') else shape if r1 in ('SKIP', 'STOP', 'err') else None
        if nxt_shape is None:
            continue
        for t2, r2 in kids_of(nxt_shape)[:CAP['tup2']]:
            out.append((['tuple', [t1, t2]], r2))
        for t2, r2 in kids_of(nxt_shape)[:CAP['pipe']]:
            out.append((['pipe', [t1, t2]], r2))
            for t3, r3 in kids_of(r2 if r2 in ('int', 'ints', 'rec', 'nested', 'sub') else nxt_shape)[:CAP['tup3']]:
                out.append((['tuple', [t1, t2, t3]], r3))
    out.append((['tuple', []], shape))
    for t1, r1 in kids:      # one-step chains: SKIP keeps the target, STOP returns the target
        out.append((['tuple', [t1]], r1 if r1 not in ('SKIP', 'STOP') else shape))
        out.append((['pipe', [t1]], r1 if r1 not in ('SKIP', 'STOP') else shape))
    # list specs
    if shape in ('ints', 'nested'):
        for t, rs in kids_of('int'):
            out.append((['list', t], 'any'))
    else:
        out.append((['list', ['T', []]], 'err'))
    # coalesce
    for (t1, r1) in kids[:CAP['coal1']]:
        for (t2, r2) in kids[:CAP['coal2']]:
            for o in COAL_OPTS:
                out.append((['coalesce', [t1, t2], o], 'any'))
    for t1, r1 in kids[:CAP['misc'] + 2]:
        out.append((['coalesce', [t1], {}], r1))
        out.append((['spec', t1], r1))
    # call / invoke
    out.append((['call', ['fn', 'pack'], [{'T': []}, {'lit': 'k'}], {}], 'any'))
    out.append((['call', ['fn', 'pack'], [], {'kw': {'T': []}}], 'any'))
    out.append((['call', ['fn', 'pack'], [{'list': [{'T': []}, {'lit': 1}]}, {'tuple': [{'spec': ['fn', 'ident']}]}], {}], 'any'))
    out.append((['call', ['fn', 'raise'], [], {}], 'err'))
    # keyword values that are containers HOLDING specs (no keyword value is a spec itself), next to constants
    out.append((['call', ['fn', 'pack'], [], {'k': {'list': [{'T': []}]}, 'c': {'lit': 5}}], 'any'))
    out.append((['call', ['fn', 'pack'], [], {'k': {'tuple': [{'lit': 1}, {'spec': ['fn', 'ident']}]}}], 'any'))
    out.append((['call', ['fn', 'pack'], [], {'k': {'dict': [['v', {'T': []}]]}, 'j': {'list': [{'list': [{'T': []}]}]}}], 'any'))
    out.append((['call', ['fn', 'pack'], [{'lit': 0}], {'k': {'list': [{'lit': 'only-constants'}]}}], 'any'))
    out.append((['call', ['fn', 'pack'], [{'dict': [['v', {'list': [{'T': []}]}]]}], {}], 'any'))
    for t, rs in kids[:CAP['misc']]:
        out.append((['call', ['fn', 'pack'], [{'spec': t}], {'z': {'lit': 'path'}}], 'any'))
        out.append((['invoke', ['fn', 'pack'], [['S', [t], {}]]], 'any'))
        out.append((['invoke', ['fn', 'pack'], [['C', [1, 'a'], {'k': 1}], ['S', [t], {'k': ['T', []]}]]], 'any'))
        out.append((['invoke', ['fn', 'pack'], [['S', [], {'k': t}], ['C', [], {'k': 'const'}]]], 'any'))
        out.append((['invoke', ['fn', 'pack'], [['S', [], {'k': ['fn', 'raise']}], ['S', [t], {'k': ['val', 1]}]]], 'any'))
    out.append((['invoke', ['fn', 'pack'], [['C', [], {'k': 1, 'j': 1}], ['C', [0], {'k': 2}]]], 'any'))
    out.append((['invoke', ['fn', 'pack'], [['S', [], {'k': ['val', 1]}], ['S', [], {'k': ['val', 2], 'j': ['T', []]}], ['C', [], {'j': 3}]]], 'any'))
    out.append((['invoke', ['fn', 'pack'], [['C', [], {'k': 1}], ['S', [], {'k': ['fn', 'ident']}], ['C', [], {'k': 3}], ['S', [['fn', 'ident']], {}]]], 'any'))
    out.append((['invoke', ['T', []], []], 'err'))
    if shape == 'ints':
        out.append((['invoke', ['fn', 'pack'], [['*', ['T', []], None], ['C', [9], {}]]], 'any'))
        out.append((['invoke', ['fn', 'pack'], [['C', [0], {}], ['*', ['T', []], None], ['*', ['list', ['fn', 'inc']], None]]], 'any'))
    if shape == 'sub':
        out.append((['invoke', ['fn', 'pack'], [['*', None, ['T', []]]]], 'any'))
        out.append((['invoke', ['fn', 'pack'], [['C', [], {'d': 'const'}], ['*', None, ['T', []]]]], 'any'))
        out.append((['invoke', ['fn', 'pack'], [['*', None, ['T', []]], ['C', [], {'d': 'const'}]]], 'any'))
    out.append((['invoke', ['spec', ['val', {'$': 'SKIP'}]], []], 'err') if False else (['invoke', ['fn', 'mk'], []], 'str'))
    # Ref
    for t, rs in kids[:CAP['misc']]:
        out.append((['ref', 'r', t], rs))
    if shape == 'nested':
        # an inner same-name definition in one dict value must not disturb the outer definition used by a sibling value
        out.append((['ref', 'r', ['coalesce', [['dict', [[['k', 'a'], ['ref', 'r', ['val', 'inner']]],
                                                         [['k', 'b'], ['tuple', [['T', [['[', 0]]], ['ref', 'r']]]]], 'dict'], ['val', 'leaf']], {}]], 'any'))
        out.append((['ref', 'r', ['coalesce', [['list', ['ref', 'r']], ['fn', 'inc']], {}]], 'any'))
        out.append((['ref', 'r', ['coalesce', [['list', ['ref', 'r']], ['fn', 'skip_if_big']], {}]], 'any'))
        out.append((['ref', 'o', ['list', ['ref', 'r', ['coalesce', [['list', ['ref', 'r']], ['ref', 'o'], ['T', []]], {'skip_exc': 'both'}]]]], 'any'))
    return out


def representatives(items, tname, K):
    """first K per (constructor, outcome class)"""
    target = mk_target(tname) if tname in ('rec', 'nested', 'ints', 'int', 'sub') else None
    buckets = {}
    out = []
    for term, rs in items:
        if target is not None:
            oc = outcome_ref(term, mk_target(tname))[0][0]
        else:
            oc = rs
        key = (term[0], oc, rs if rs in ('SKIP', 'STOP') else '')
        n = buckets.get(key, 0)
        if n < K:
            buckets[key] = n + 1
            out.append((term, rs))
    return out


SHAPE_TARGET = {'rec': 'rec', 'nested': 'nested', 'ints': 'ints', 'int': 'int', 'sub': 'sub'}


def gen_cases(tier):
    depth = 3
    K = 6 if tier == 'quick' else 10
    if tier == 'quick':
        CAP.update({'dict2': 20, 'tup2': 30, 'pipe': 8, 'tup3': 5, 'coal1': 24, 'coal2': 14, 'misc': 14})
    else:
        CAP.update({'dict2': 30, 'tup2': 60, 'pipe': 12, 'tup3': 8, 'coal1': 40, 'coal2': 20, 'misc': 20})
    shapes = ['int', 'ints', 'rec', 'nested', 'sub']
    level = {s: leaves(s) for s in shapes}          # depth 0
    all_terms = {s: list(level[s]) for s in shapes}
    for d in range(1, depth + 1):
        kids = {}
        for s in shapes:
            if d == 1:
                kids[s] = list(level[s])
            else:
                kids[s] = leaves(s)[:8] + representatives(level[s], SHAPE_TARGET[s], K)
        nxt = {}
        for s in shapes:
            nxt[s] = composites(s, kids[s], lambda sh: kids.get(sh, kids['int']))
            all_terms[s].extend(nxt[s])
        level = nxt
    cases = []
    seen = set()
    import json
    for tname in ('rec', 'nested', 'ints', 'int', 'sub'):
        for term, rs in all_terms[SHAPES[tname]]:
            key = tname + json.dumps(term)
            if key not in seen:
                seen.add(key)
                cases.append([tname, term])
    return cases


# ---------------------------------------------------------------------------
# model-free laws on the implementation

def run_law(case):
    tname, a, b = case

    def run(term, target):
        ctx = RA.Ctx(set())
        try:
            return ('ok', glom(target, build(term, ctx)))
        except Exception as e:
            return ('err', [c.__name__ for c in type(e).__mro__ if c.__module__ in ('builtins', 'glom.core')][:1])
    t = mk_target(tname)
    n = 0
    # chain law
    whole = run(['tuple', [a, b]], mk_target(tname))
    first = run(a, mk_target(tname))
    if first[0] == 'ok' and first[1] not in (G.SKIP, G.STOP):
        parts = run(b, first[1])
        if parts[0] == 'ok' and parts[1] in (G.SKIP, G.STOP):
            parts = first   # a SKIP / STOP second step keeps the first step's value
        n += 1
        if whole[0] != parts[0] or (whole[0] == 'ok' and norm(whole[1]) != norm(parts[1])):
            return R({'expected': 'glom(glom(t,a),b) = %r' % (parts,), 'observed': 'glom(t,(a,b)) = %r' % (whole,),
                      'a': repr(a), 'b': repr(b)}, 'chain')
    # dict law
    if first[0] == 'ok' and first[1] not in (G.SKIP, G.STOP):
        d = run(['dict', [[['k', 'k'], a]], 'dict'], mk_target(tname))
        n += 1
        if d[0] != 'ok' or list(d[1].keys()) != ['k'] or norm(d[1]['k']) != norm(first[1]):
            return R({'expected': "{'k': %r}" % (first[1],), 'observed': repr(d), 'a': repr(a)}, 'dict')
    # list law
    if isinstance(t, list):
        per = [run(a, x) for x in mk_target(tname)]
        if all(p[0] == 'ok' and p[1] not in (G.SKIP, G.STOP) for p in per):
            l = run(['list', a], mk_target(tname))
            n += 1
            if l[0] != 'ok' or norm(l[1]) != norm([p[1] for p in per]):
                return R({'expected': repr([p[1] for p in per]), 'observed': repr(l), 'a': repr(a)}, 'list')
    return R(None, 'ok' if n else 'n/a', nontrivial=n > 0, steps=max(n, 1))


def gen_laws(tier):
    cases = []
    for tname in ('rec', 'ints', 'int', 'nested'):
        shape = SHAPES[tname]
        A = [t for t, rs in leaves(shape)] + [t for t, rs in composites(shape, leaves(shape), leaves)[::7]]
        for a in A:
            ra = outcome_ref(a, mk_target(tname))[0]
            if ra[0] != 'ok':
                cases.append([tname, a, ['T', []]])
                continue
            v = ra[2]
            sh = 'int' if isinstance(v, int) and not isinstance(v, bool) else 'ints' if isinstance(v, list) and all(isinstance(x, int) for x in v) else \
                 'rec' if isinstance(v, dict) and 'c' in v else 'sub' if isinstance(v, dict) and 'd' in v else None
            B = [t for t, rs in leaves(sh)] if sh else [['T', []], ['fn', 'ident'], ['val', 5]]
            for b in B:
                cases.append([tname, a, b])
    return cases


# ---------------------------------------------------------------------------
# one spec OBJECT placed at several positions of a composite must behave like separate, equal objects

def _inc(x):
    return x + 1 if isinstance(x, int) else x


def _pack(*a, **kw):
    return ['pack', list(a), sorted(kw.items())]


def _first_int(v):
    while isinstance(v, (list, tuple, dict)) and v:
        v = list(v.values())[0] if isinstance(v, dict) else v[-1] if isinstance(v[-1], (list, tuple, dict, int)) and not isinstance(v[-1], bool) else v[0]
        if isinstance(v, str):
            return 0
    return v if isinstance(v, int) else 0


REUSE_POOL = {
    'call-list-args': lambda: Call(_inc, args=[T]),
    'call-tuple-args': lambda: Call(_inc, args=(T,)),
    'call-kwargs': lambda: Call(_pack, kwargs={'k': T}),
    'call-nested-list': lambda: Call(_pack, args=([T, 1],)),
    'call-nested-dict': lambda: Call(_pack, args=({'v': T},)),
    'call-args-and-kwargs': lambda: Call(_pack, args=[T, [T]], kwargs={'k': [T]}),
    's-call-list': lambda: G.S.pack([T, 1]),
    's-call-dict': lambda: G.S.pack(k={'v': T}),
    's-index-list': lambda: G.S.rec[[T]],
    'invoke-specs': lambda: Invoke(_pack).specs(T).constants(1),
    'invoke-star-kwargs': lambda: Invoke(_pack).star(kwargs={'k': T}),
    'invoke-star-args': lambda: Invoke(_pack).star(args=Spec((T, lambda t: [t]))),
    'coalesce': lambda: Coalesce('zz', T),
    'coalesce-default-list': lambda: Coalesce('zz', default=[1]),
    'dict-spec': lambda: {'v': T},
    'fill': lambda: G.Fill({'v': T, 'l': [T]}),
    'ref': lambda: Ref('r', Call(_inc, args=[T])),
    'lambda': lambda: (lambda t: _inc(t)),
    'spec-wrapped-call': lambda: Spec(Call(_inc, args=[T])),
    't-arith': lambda: T + 1 if False else Call(_inc, kwargs={}, args=[Spec(T)]),
    'tuple-of-calls': lambda: (Call(_inc, args=[T]), Call(_inc, args=[T])),
    'val-list': lambda: (Val([1]), Call(_pack, args=[T])),
}
REUSE_TEMPLATES = ['chain', 'chain3', 'pipe', 'dict', 'list', 'in-call-args', 'mapped-in-call-arg', 'two-calls', 'coalesce-siblings', 'chain-after-step']


class _Rec:
    def __getitem__(self, k):
        return ['item', k]


def reuse_eval(template, mk, shared):
    """shared=True: one object from mk() everywhere; False: a fresh equal object at every position (and every item)"""
    one = mk() if shared else None
    x = (lambda: one) if shared else mk
    scope = {'pack': _pack, 'rec': _Rec()}
    g = lambda t, spec: glom(t, spec, scope=dict(scope))
    if template == 'chain':
        return g(1, (x(), x()))
    if template == 'chain3':
        return g(1, (x(), x(), x()))
    if template == 'pipe':
        return g(1, Pipe(x(), x()))
    if template == 'dict':
        return g(1, {'p': x(), 'q': (_inc, x())})
    if template == 'list':
        return g([1, 5], [x()]) if shared else [g(1, x()), g(5, x())]
    if template == 'in-call-args':
        return g(1, Call(_pack, args=[Spec(x()), Spec((_inc, x()))]))
    if template == 'mapped-in-call-arg':
        return g([1, 5], Call(list, args=[Spec([x()])])) if shared else [g(1, x()), g(5, x())]
    if template == 'two-calls':
        a = x()
        b = x()
        return [g(1, a), g(5, b)]
    if template == 'coalesce-siblings':
        return g(1, Coalesce((x(), 'zz'), (_inc, _inc, x())))
    if template == 'chain-after-step':
        return g({'a': 1, 'b': 5}, {'p': ('a', x()), 'q': ('b', x())})
    raise ValueError(template)


def run_reuse(case):
    name, template = case
    mk = REUSE_POOL[name]
    res = []
    for shared in (False, True):
        try:
            res.append(('ok', repr(reuse_eval(template, mk, shared))))
        except Exception as e:
            res.append(('err', type(e).__name__))
    if res[0] != res[1]:
        return R({'expected': 'as with separate equal objects: %r' % (res[0],), 'observed': 'one shared object: %r' % (res[1],),
                  'spec': name, 'template': template}, 'reuse')
    return R(None, template + ':' + res[0][0], nontrivial=res[0][0] == 'ok', steps=2, tags={name, template})


# ---------------------------------------------------------------------------
# Invoke builders are values: deriving a new spec from one (or evaluating one) never changes what another one means

BUILDER_OPS = [
    ('constants', lambda inv: inv.constants(x='c1')), ('constants', lambda inv: inv.constants(x='c2', y='cy')),
    ('specs', lambda inv: inv.specs(x=T)), ('specs', lambda inv: inv.specs(y=(T, _inc))),
    ('constants', lambda inv: inv.constants(7)), ('specs', lambda inv: inv.specs(T)),
    ('star', lambda inv: inv.star(kwargs=Val({'x': 'star'}))), ('star', lambda inv: inv.star(args=Val([8]))),
]


def run_builders(case):
    events, eval_early = case
    nodes = [Invoke(_pack)]
    chains = [[]]
    early = []
    for parent, op in events:
        if eval_early:
            early.append(repr(glom(1, nodes[parent])))
        nodes.append(BUILDER_OPS[op][1](nodes[parent]))
        chains.append(chains[parent] + [op])
        if eval_early:
            early.append(repr(glom(2, nodes[-1])))
    for i, (node, chain) in enumerate(zip(nodes, chains)):
        fresh = Invoke(_pack)
        for op in chain:
            fresh = BUILDER_OPS[op][1](fresh)
        for target in (1, 5):
            want, got = repr(glom(target, fresh)), repr(glom(target, node))
            if want != got:
                return R({'expected': 'node %d (chain %r) evaluates like a freshly built chain: %s' % (i, [BUILDER_OPS[o][0] for o in chain], want),
                          'observed': got, 'history': repr(events), 'evaluated_between_derivations': eval_early}, 'builder')
        if repr(node) != repr(fresh):
            return R({'expected': 'repr %s' % repr(fresh), 'observed': repr(node), 'history': repr(events)}, 'builder-repr')
    forks = len(set(p for p, _ in events)) < len(events)
    return R(None, ('forked' if forks else 'linear') + (':evaluated-early' if eval_early else ''), nontrivial=True, steps=2 * len(nodes),
             tags={BUILDER_OPS[o][0] for _, o in events} | {'forked' if forks else 'linear'})


# ---------------------------------------------------------------------------
# Call / Invoke combine their parts as documented: every part evaluated once, left to right; falsy part specs are specs

def parts_menu():
    from glom import Call, Path
    log = []

    def rec(tag, value):
        def f(t):
            log.append(tag)
            return value(t) if callable(value) else value
        return Spec(f)
    handlers = lambda: {'queue': [lambda j: 'low:' + j, lambda j: 'mid:' + j, lambda j: 'high:' + j]}

    def call_parts():
        del log[:]
        r = glom({'a': 1}, Call(rec('func', lambda t: _pack), args=(rec('arg', 'A'),), kwargs={'k': rec('kw', 'K')}))
        return r, list(log)

    def call_popped():
        t = handlers()
        return glom(t, Call(T['queue'].pop(), args=('job',))), len(t['queue'])

    def call_next():
        fns = iter([lambda: 'first', lambda: 'second', lambda: 'third'])
        return glom(fns, Call(Spec(next))), [f() for f in fns]
    return [
        ('invoke-star-args-empty-chain', lambda: glom([1, 2], Invoke(_pack).star(args=())), ['pack', [1, 2], []]),
        ('invoke-star-kwargs-empty-path', lambda: glom({'x': 1}, Invoke(_pack).star(kwargs=Path())), ['pack', [], [('x', 1)]]),
        ('invoke-star-between-constants', lambda: glom([1, 2], Invoke(_pack).constants(0).star(args=()).constants(9)), ['pack', [0, 1, 2, 9], []]),
        ('invoke-star-args-T', lambda: glom([1, 2], Invoke(_pack).star(args=T)), ['pack', [1, 2], []]),
        ('invoke-specs-falsy-spec', lambda: glom([1, 2], Invoke(_pack).specs(())), ['pack', [[1, 2]], []]),
        ('call-parts-once-in-order', call_parts, (['pack', ['A'], [('k', 'K')]], ['func', 'arg', 'kw'])),
        ('call-func-from-stateful-T', call_popped, ('high:job', 2)),
        ('call-func-from-iterator', call_next, ('first', ['second', 'third'])),
    ]


def run_parts(i):
    name, f, want = parts_menu()[i]
    try:
        got = f()
    except Exception as e:
        return R({'expected': repr(want), 'observed': 'raised %r' % (e,), 'case': name}, name)
    if got != want:
        return R({'expected': repr(want), 'observed': repr(got), 'case': name}, name)
    return R(None, name, nontrivial=True, steps=1)


def gen_builders(tier):
    import itertools
    depth = 3
    cases = []
    for d in range(1, depth + 1):
        for ops in itertools.product(range(len(BUILDER_OPS)), repeat=d):
            for parents in itertools.product(*[range(k + 1) for k in range(d)]):
                for eval_early in (False, True):
                    cases.append([[[p, o] for p, o in zip(parents, ops)], eval_early])
    return cases


# ---------------------------------------------------------------------------
# a list spec walks its target item by item: nothing behind a STOP is pulled from a lazy target

class Source:
    """one-shot iterator over *items* that counts what was pulled and fails at position raise_at"""
    def __init__(self, items, raise_at):
        self.items, self.raise_at, self.pulled = list(items), raise_at, 0

    def __iter__(self):
        return self

    def __next__(self):
        i = self.pulled
        if i == self.raise_at:
            self.pulled += 1
            raise RuntimeError('source fails at position %d' % i)
        if i >= len(self.items):
            raise StopIteration
        self.pulled += 1
        return self.items[i]


def run_lazy_list(case):
    items, stop_value, skip_value, raise_at, wrap = case[:5]
    sub_exc = case[5] if len(case) > 5 else None      # the SUB-SPEC raises this for the item 1 (StopIteration must not be taken for the end of the target)
    src = Source(items, raise_at)
    exc_class = {'StopIteration': StopIteration, 'LookupError': LookupError, None: None}[sub_exc]

    def sub(x):
        if exc_class is not None and x == 1:
            raise exc_class('raised by the sub-spec')
        return G.STOP if x == stop_value else G.SKIP if x == skip_value else x * 10
    want, want_pulled, want_exc = [], 0, None
    for i in range(len(items) + 1):
        if i == raise_at:
            want_pulled += 1
            want_exc = 'RuntimeError'
            break
        if i == len(items):
            break
        want_pulled += 1
        if exc_class is not None and items[i] == 1:
            want_exc = sub_exc
            break
        if items[i] == stop_value:
            break
        if items[i] != skip_value:
            want.append(items[i] * 10)
    spec = [sub] if wrap == 'direct' else (lambda t: t, [sub]) if wrap == 'after-step' else {'k': [sub]}
    try:
        got = glom(src, spec)
        got = got['k'] if wrap == 'dict-value' else got
        exc = None
    except Exception as e:
        got, exc = None, [c.__name__ for c in type(e).__mro__ if c.__module__ == 'builtins'][0]
    where = {'items': items, 'stop': stop_value, 'skip': skip_value, 'source_fails_at': raise_at, 'position': wrap, 'sub_spec_raises_for_1': sub_exc}
    if exc != want_exc or (exc is None and got != want):
        return R({'expected': '%r%s' % (want, ' / ' + want_exc if want_exc else ''), 'observed': '%r / %s' % (got, exc), **where}, 'lazy-list')
    if src.pulled != want_pulled:
        return R({'expected': '%d items pulled from the source (nothing behind the STOP)' % want_pulled, 'observed': '%d pulled' % src.pulled, **where}, 'lazy-list-pulls')
    return R(None, 'stopped' if stop_value in items[:want_pulled] else 'raised' if want_exc else 'exhausted', nontrivial=True, steps=want_pulled,
             tags={wrap})


def gen_lazy_list(tier):
    import itertools
    cases = []
    for n in range(0, 5):
        for items in itertools.product((1, 2, 3), repeat=n):
            for stop_value in (None, 2):
                for skip_value in (None, 3):
                    for raise_at in [None] + list(range(n + 1)):
                        for wrap in ('direct', 'after-step', 'dict-value'):
                            cases.append([list(items), stop_value, skip_value, raise_at, wrap])
                            if 1 in items and n <= 3:
                                for sub_exc in ('StopIteration', 'LookupError'):
                                    cases.append([list(items), stop_value, skip_value, raise_at, wrap, sub_exc])
    return cases


# ---------------------------------------------------------------------------
# a list spec maps over the target's ITERATION: falsy targets that cannot be iterated fail like truthy ones, empty iterables give []

FALSY_TARGETS = {
    'None': (lambda: None, False), '0': (lambda: 0, False), '0.0': (lambda: 0.0, False), 'False': (lambda: False, False), "''": (lambda: '', False),
    "b''": (lambda: b'', False), '[]': (lambda: [], True), '()': (lambda: (), True), '{}': (lambda: {}, True), 'set()': (lambda: set(), True),
    'empty-generator': (lambda: iter(()), True), '5': (lambda: 5, False), "'ab'": (lambda: 'ab', False), 'True': (lambda: True, False),
}
FALSY_POSITIONS = ['direct', 'after-step', 'dict-value', 'coalesce-branch', 'item-of-list']


def run_falsy_list(case):
    from glom import UnregisteredTarget, Coalesce, SKIP
    tname, position = case
    mk, iterable = FALSY_TARGETS[tname]
    v = mk()
    if position == 'direct':
        target, spec, want_ok, want_fail = v, [T], [], 'error'
    elif position == 'after-step':
        target, spec, want_ok, want_fail = {'items': v}, ('items', [T]), [], 'error'
    elif position == 'dict-value':
        target, spec, want_ok, want_fail = {'items': v}, {'r': ('items', [T])}, {'r': []}, 'error'
    elif position == 'coalesce-branch':
        target, spec, want_ok, want_fail = {'items': v}, Coalesce(('items', [T]), default='not iterable'), [], 'not iterable'
    else:
        target, spec, want_ok, want_fail = [{'items': v}, {'items': [1]}], [Coalesce(('items', [T]), default=SKIP)], [[], [1]], [[1]]
    try:
        got = glom(target, spec)
    except UnregisteredTarget:
        got = 'error'
    except Exception as e:
        got = 'other exception %r' % (e,)
    want = want_ok if iterable else want_fail
    if got != want:
        return R({'expected': repr(want), 'observed': repr(got), 'target': tname, 'position': position}, 'falsy-list')
    return R(None, 'iterable' if iterable else 'not-iterable', nontrivial=True, steps=1, tags={position})


def subs(tier, only=None):
    from ..engine import fast_tracebacks
    fast_tracebacks()
    out = [
        Sub('call-and-invoke-parts', list(range(len(parts_menu()))), run_parts,
            rule='fixed menu: Call evaluates func, args, kwargs once each in that order (stateful func specs); Invoke.star / .specs with falsy specs (empty chain, empty Path)',
            min_nontrivial=8, min_outcomes=8),
        Sub('list-spec-falsy-targets', [[t, p] for t in FALSY_TARGETS for p in FALSY_POSITIONS], run_falsy_list,
            rule='case = (falsy / truthy value that can or cannot be iterated, position of the list spec): an un-iterable target is UnregisteredTarget whatever its '
                 'truth value, an empty iterable gives []', min_nontrivial=60, min_outcomes=2),
        Sub('list-spec-laziness', gen_lazy_list(tier), run_lazy_list,
            rule='case = (items of a one-shot counting source, value at which the sub-spec STOPs, value it SKIPs, position at which the source itself fails, '
                 'position of the list spec): result, propagated failure and the number of items pulled (nothing behind a STOP is touched)',
            min_nontrivial=5000, min_outcomes=3, required_tags=['direct', 'after-step', 'dict-value']),
        Sub('invoke-builders', gen_builders(tier), run_builders,
            rule='case = derivation history of depth <= 3 over 8 builder calls (constants / specs / star, re-setting the same keyword), each applied to '
                 'ANY earlier node (forks), optionally evaluating nodes between derivations; afterwards every node must evaluate (and print) like a '
                 'freshly built linear chain',
            min_nontrivial=5000, min_outcomes=4, required_tags=['constants', 'specs', 'star', 'forked', 'linear']),
        Sub('object-reuse', [[n, t] for n in REUSE_POOL for t in REUSE_TEMPLATES], run_reuse,
            rule='case = (spec with list / dict / tuple arguments, composite template): the composite built with ONE spec object at all '
                 'positions (chain steps, dict siblings, list items, call arguments, successive calls) against the same composite built from '
                 'separate equal objects',
            min_nontrivial=150, min_outcomes=8, required_tags=['call-list-args', 'call-kwargs', 's-call-list', 'chain', 'mapped-in-call-arg']),
        Sub('ref-interpreter', gen_cases(tier), run_case,
            rule='case = (target, spec term) from the type-directed generator; result, container types, key order and the call log of the '
                 'instrumented callables compared with the reference interpreter',
            min_nontrivial=3000, min_outcomes=4,
            required_tags=['path', 'T', 'dict', 'list', 'tuple', 'pipe', 'fn', 'val', 'spec', 'coalesce', 'call', 'invoke', 'ref']),
        Sub('laws', gen_laws(tier), run_law,
            rule='case = (target, a, b): glom(t,(a,b)) == glom(glom(t,a),b); glom(t,{k:a})[k] == glom(t,a); glom(t,[a]) == [glom(x,a) for x in t]',
            min_nontrivial=300, min_outcomes=1),
    ]
    return [s for s in out if only in (None, s.name)]
