"""Shared engine: bounded exhaustive exploration of the real glom implementation.

Every check module (mc/checks/cXX.py) declares one or more *sub-checks*.  A
sub-check is a finite, deterministically enumerated list of JSON-serialisable
cases plus a ``run_case(case)`` function that builds fresh live objects from the
case, executes the real implementation, and compares with a reference model or
a law.  The engine walks the complete list (never a sample) over forked worker
processes, collects counters, re-executes every failing case once, writes
replay files and the evidence file, and applies the known-findings file.

Exit status of a check: 0 = property held on everything explored (known
findings are printed as KNOWN-FINDING lines); 1 = at least one VIOLATION; 2 =
harness error / vacuous run (never reported as a violation).
"""
import hashlib
import json
import multiprocessing
import os
import signal
import sys
import time
import traceback

VERIF = os.path.dirname(os.path.dirname(os.path.abspath(__file__)))
REPO = os.environ.get('GLOMVERIF_REPO', '/repo')
NPROC = int(os.environ.get('GLOMVERIF_WORKERS', '0')) or min(16, os.cpu_count() or 4)


def setup_imports():
    """Make ``import glom`` resolve to the working tree under REPO, never to a
    byte-code cache (nothing is written into the repository)."""
    sys.dont_write_bytecode = True
    if sys.path[0] != REPO:
        sys.path.insert(0, REPO)
    for name in list(sys.modules):
        if name == 'glom' or name.startswith('glom.'):
            mod = sys.modules[name]
            f = getattr(mod, '__file__', '') or ''
            if not f.startswith(REPO + os.sep):
                del sys.modules[name]
    import glom  # noqa
    f = os.path.abspath(glom.__file__)
    if not f.startswith(os.path.abspath(REPO) + os.sep):
        raise HarnessError('glom imported from %s, expected under %s' % (f, REPO))


class HarnessError(Exception):
    pass


def fast_tracebacks():
    """Harness-side speed-up for checks that never read error *messages*: glom's error
    finalisation formats the Python traceback of every failure (~0.7 ms); the stub keeps
    the whole error path of glom() running but makes that stdlib call constant time."""
    import traceback
    if getattr(traceback.format_exc, '_glomverif_stub', False):
        return
    def format_exc(*a, **kw):
        return 'Traceback (most recent call last):\n  (elided by the verification harness)\nError: elided'
    format_exc._glomverif_stub = True
    traceback.format_exc = format_exc


class CaseTimeout(BaseException):
    pass


class time_limit:
    """Per-case wall clock budget (SIGALRM); exceeding it raises CaseTimeout,
    which is a BaseException so that no ``except Exception`` in the code under
    test can swallow it."""
    def __init__(self, seconds):
        self.seconds = seconds

    def _handler(self, signum, frame):
        raise CaseTimeout('case exceeded %ss' % self.seconds)

    def __enter__(self):
        self._old = signal.signal(signal.SIGALRM, self._handler)
        signal.setitimer(signal.ITIMER_REAL, self.seconds)

    def __exit__(self, *a):
        signal.setitimer(signal.ITIMER_REAL, 0)
        signal.signal(signal.SIGALRM, self._old)
        return False


def canon(obj):
    return json.dumps(obj, sort_keys=True, separators=(',', ':'), default=repr)


def digest(obj):
    return hashlib.blake2b(canon(obj).encode('utf8'), digest_size=8).digest()


class R:
    """Result of one executed case."""
    __slots__ = ('viol', 'outcome', 'nontrivial', 'steps', 'sig', 'tags')

    def __init__(self, viol=None, outcome='', nontrivial=True, steps=1, sig=None, tags=()):
        self.viol = viol            # None or a JSON-able description (expected / observed)
        self.outcome = outcome      # short string: class of the observed outcome
        self.nontrivial = nontrivial
        self.steps = steps          # transitions executed (ops, events, points)
        self.sig = sig              # signature for known-findings matching
        self.tags = tags            # alphabet symbols exercised (vacuity control)


class Sub:
    """One sub-check: a complete case list and its executor."""
    def __init__(self, name, cases, run_case, rule, min_nontrivial=2, min_outcomes=2,
                 required_tags=(), parallel=True, setup=None, case_timeout=20):
        self.name = name
        self.cases = cases            # list (already complete for the tier)
        self.run_case = run_case
        self.rule = rule
        self.min_nontrivial = min_nontrivial
        self.min_outcomes = min_outcomes
        self.required_tags = tuple(required_tags)
        self.parallel = parallel
        self.setup = setup
        self.case_timeout = case_timeout   # seconds; a case that exceeds it is reported as a violation


# ---------------------------------------------------------------------------
# worker side

_SUB = None


def _run_range(arg):
    start, stop = arg
    sub = _SUB
    out = {'n': 0, 'steps': 0, 'nontrivial': set(), 'distinct': set(), 'outcomes': {},
           'viol': [], 'tags': set(), 'errors': [], 'samples': []}
    for idx in range(start, stop):
        case = sub.cases[idx]
        try:
            with time_limit(sub.case_timeout):
                r = sub.run_case(case)
        except CaseTimeout as e:
            r = R(viol={'observed': 'timeout: %s' % e}, outcome='timeout')
        except Exception:
            out['errors'].append({'case': case, 'traceback': ''.join(traceback.format_exception(*sys.exc_info()))})
            continue
        out['n'] += 1
        out['steps'] += r.steps
        d = digest(case)
        out['distinct'].add(d)
        if r.nontrivial:
            out['nontrivial'].add(d)
        out['outcomes'][r.outcome] = out['outcomes'].get(r.outcome, 0) + 1
        out['tags'].update(r.tags)
        if r.viol is not None:
            # violations that carry a signature (candidates for a known finding) must not crowd out the others: separate quotas
            seen = out.setdefault('viol_seen', {})
            seen[r.sig] = seen.get(r.sig, 0) + 1
            if seen[r.sig] <= (50 if r.sig is None else 3):
                out['viol'].append({'case': case, 'viol': r.viol, 'sig': r.sig, 'outcome': r.outcome})
            elif r.sig is None:
                out.setdefault('viol_overflow', 0)
                out['viol_overflow'] += 1
            else:
                so = out.setdefault('sig_overflow', {})
                so[r.sig] = so.get(r.sig, 0) + 1
        if idx == start and len(out['samples']) < 1:
            out['samples'].append({'case': case, 'outcome': r.outcome})
    return out


def explore(sub, seed=0, workers=None):
    """Run every case of *sub*; returns the merged counters."""
    global _SUB
    workers = workers or NPROC
    n = len(sub.cases)
    if sub.setup:
        sub.setup()
    _SUB = sub
    # the seed only rotates where the chunk boundaries fall
    chunk = max(1, min(2000, n // (workers * 8) or 1))
    off = (seed * 7919) % chunk if n > chunk else 0
    bounds = [0] + list(range(off, n, chunk))[(1 if off == 0 else 0):] + [n]
    bounds = sorted(set(bounds))
    ranges = [(a, b) for a, b in zip(bounds, bounds[1:]) if b > a]
    if seed % 2:
        ranges.reverse()
    merged = {'n': 0, 'steps': 0, 'nontrivial': set(), 'distinct': set(), 'outcomes': {},
              'viol': [], 'tags': set(), 'errors': [], 'samples': [], 'viol_overflow': 0, 'sig_overflow': {}}
    if sub.parallel and workers > 1 and n > 64:
        import concurrent.futures as cf
        ctx = multiprocessing.get_context('fork')
        with cf.ProcessPoolExecutor(workers, mp_context=ctx) as pool:
            # a worker that dies abruptly raises BrokenProcessPool here instead of hanging the run
            for p in pool.map(_run_range, ranges):
                _merge(merged, p)
    else:
        for rg in ranges:
            _merge(merged, _run_range(rg))
    _SUB = None
    return merged


def _merge(m, p):
    m['n'] += p['n']
    m['steps'] += p['steps']
    m['nontrivial'] |= p['nontrivial']
    m['distinct'] |= p['distinct']
    for k, v in p['outcomes'].items():
        m['outcomes'][k] = m['outcomes'].get(k, 0) + v
    m['viol'].extend(p['viol'])
    m['tags'] |= p['tags']
    m['errors'].extend(p['errors'])
    if len(m['samples']) < 6:
        m['samples'].extend(p['samples'][:1])
    m['viol_overflow'] += p.get('viol_overflow', 0)
    for k, v in p.get('sig_overflow', {}).items():
        m['sig_overflow'][k] = m['sig_overflow'].get(k, 0) + v


# ---------------------------------------------------------------------------
# known findings

def load_known(prop):
    known, fixed = [], []
    path = os.path.join(VERIF, 'KNOWN_FINDINGS.txt')
    if not os.path.exists(path):
        return known, fixed
    for line in open(path, encoding='utf8'):
        line = line.strip()
        if not line or line.startswith('#'):
            continue
        kind, _, rest = line.partition(':')
        fields = rest.strip().split(None, 2)
        if kind == 'known' and fields and fields[0] == 'property=' + prop:
            sig = fields[1][len('sig='):] if len(fields) > 1 and fields[1].startswith('sig=') else None
            known.append((sig, fields[2] if len(fields) > 2 else ''))
        elif kind == 'fixed' and fields and fields[0] == 'property=' + prop:
            fixed.append(rest.strip())
    return known, fixed


# ---------------------------------------------------------------------------
# check driver

def run_check(prop, subs, tier, seed, level='model_checking', assumptions=(), extra=None):
    """Explore every sub-check, write evidence, print verdict lines; returns exit code."""
    t0 = time.time()
    known, _fixed = load_known(prop)
    total = {'n': 0, 'steps': 0, 'nontrivial': 0, 'distinct': 0}
    per_sub = {}
    samples = []
    violations = []
    known_hits = {}
    harness_errors = []
    vacuous = []
    for sub in subs:
        ts = time.time()
        m = explore(sub, seed)
        per_sub[sub.name] = {
            'cases': len(sub.cases), 'executed': m['n'], 'distinct': len(m['distinct']),
            'distinct_nontrivial': len(m['nontrivial']), 'transitions': m['steps'],
            'outcome_classes': dict(sorted(m['outcomes'].items(), key=lambda kv: -kv[1])[:12]),
            'n_outcome_classes': len(m['outcomes']), 'rule': sub.rule,
            'tags_seen': sorted(m['tags']), 'wall_s': round(time.time() - ts, 2),
            'violations': len(m['viol']) + m['viol_overflow'] + sum(m['sig_overflow'].values()),
        }
        total['n'] += m['n']
        total['steps'] += m['steps']
        total['nontrivial'] += len(m['nontrivial'])
        total['distinct'] += len(m['distinct'])
        for s in m['samples'][:2]:
            samples.append({'sub': sub.name, **s})
        for e in m['errors'][:5]:
            harness_errors.append({'sub': sub.name, **e})
        if m['n'] != len(sub.cases) and not m['errors']:
            harness_errors.append({'sub': sub.name, 'traceback': 'executed %d of %d cases' % (m['n'], len(sub.cases))})
        if len(m['nontrivial']) < sub.min_nontrivial:
            vacuous.append('%s: only %d distinct non-trivial cases (< %d)' % (sub.name, len(m['nontrivial']), sub.min_nontrivial))
        if len(m['outcomes']) < sub.min_outcomes:
            vacuous.append('%s: only %d distinct outcome classes (< %d)' % (sub.name, len(m['outcomes']), sub.min_outcomes))
        missing = [t for t in sub.required_tags if t not in m['tags']]
        if missing:
            vacuous.append('%s: alphabet symbols never exercised: %s' % (sub.name, missing))
        for v in m['viol']:
            sig = v.get('sig')
            hit = None
            for ksig, what in known:
                if ksig is not None and sig is not None and ksig == sig:
                    hit = (ksig, what)
                    break
            if hit:
                known_hits.setdefault(hit, 0)
                known_hits[hit] += 1
                continue
            violations.append((sub, v))
        for sig, cnt in m['sig_overflow'].items():
            hit = [(ksig, what) for ksig, what in known if ksig == sig]
            if hit:
                known_hits[hit[0]] = known_hits.get(hit[0], 0) + cnt
            else:
                m['viol_overflow'] += cnt       # further cases of a signature that is not a known finding (the first ones are listed above)
        if m['viol_overflow']:
            per_sub[sub.name]['violations_not_listed'] = m['viol_overflow']

    # re-execute failing cases once in this process before reporting them
    reported = []
    seen_sig = set()
    for sub, v in violations:
        key = (sub.name, v.get('sig') or canon(v['case']))
        if key in seen_sig and len(reported) >= 5:
            continue
        seen_sig.add(key)
        if len(reported) >= 20:
            break
        try:
            if sub.setup:
                sub.setup()
            with time_limit(sub.case_timeout):
                r2 = sub.run_case(v['case'])
            again = r2.viol is not None
        except CaseTimeout:
            again = True
        except Exception:
            again = False
            harness_errors.append({'sub': sub.name, 'case': v['case'], 'traceback': ''.join(traceback.format_exception(*sys.exc_info()))})
        if not again:
            harness_errors.append({'sub': sub.name, 'case': v['case'],
                                   'traceback': 'violation did not reproduce on re-execution: %r' % (v['viol'],)})
            continue
        path = write_replay(prop, sub.name, tier, v)
        reported.append(path)

    for (ksig, what), cnt in sorted(known_hits.items()):
        print('KNOWN-FINDING: property=%s sig=%s %s (%d cases in this run)' % (prop, ksig, what, cnt))
    for path in reported:
        print('VIOLATION property=%s replay=%s' % (prop, path))
    n_viol = len(violations)

    cov = {
        'states': max(1, total['distinct']),
        'transitions': max(1, total['steps']),
        'traces_validated_against_impl': total['n'],
        'evaluations': max(1, total['n']),
        'distinct_nontrivial': total['nontrivial'],
        'rule': ' | '.join('%s: %s' % (s.name, s.rule) for s in subs),
        'samples': samples[:8] or [{'note': 'no case executed'}],
        'exhaustive': not harness_errors,
        'sub_checks': per_sub,
        'known_findings_observed': [{'sig': k[0], 'what': k[1], 'cases': c} for k, c in sorted(known_hits.items())],
        'explanation': 'every case of every sub-check list was executed on the real implementation '
                       'under %s and compared with the reference model / law; counts are measured' % REPO,
    }
    if extra:
        cov.update(extra)
    ev = {
        'property_id': prop, 'tier': tier, 'seed': seed, 'level': level,
        'coverage': cov, 'assumptions': list(assumptions),
        'wall_s': round(time.time() - t0, 2), 'violations': n_viol,
    }
    write_evidence(prop, ev)
    print('%s tier=%s seed=%d cases=%d distinct=%d nontrivial=%d transitions=%d violations=%d known=%d wall=%.1fs'
          % (prop, tier, seed, total['n'], total['distinct'], total['nontrivial'], total['steps'],
             n_viol, sum(known_hits.values()), time.time() - t0))
    for name, ps in per_sub.items():
        print('  - %-28s cases=%-8d nontrivial=%-8d outcomes=%-4d violations=%-6d %.1fs' %
              (name, ps['executed'], ps['distinct_nontrivial'], ps['n_outcome_classes'], ps['violations'], ps['wall_s']))
    if harness_errors:
        for e in harness_errors[:3]:
            print('HARNESS-ERROR sub=%s case=%s\n%s' % (e.get('sub'), canon(e.get('case'))[:400], e.get('traceback')), file=sys.stderr)
        if not n_viol:
            return 2
    if n_viol:
        return 1
    if vacuous:
        for v in vacuous:
            print('VACUOUS: ' + v, file=sys.stderr)
        return 2
    return 0


def write_replay(prop, subname, tier, v):
    d = os.path.join(os.environ.get('GLOMVERIF_REPLAY_DIR') or os.path.join(VERIF, 'replays'), prop)
    os.makedirs(d, exist_ok=True)
    body = {'property': prop, 'sub': subname, 'tier': tier, 'case': v['case'],
            'violation': v['viol'], 'sig': v.get('sig')}
    name = hashlib.sha1(canon([subname, v['case']]).encode('utf8')).hexdigest()[:16] + '.json'
    path = os.path.join(d, name)
    with open(path, 'w', encoding='utf8') as f:
        json.dump(body, f, indent=1, default=repr, sort_keys=True)
    return path


def write_evidence(prop, ev):
    d = os.environ.get('GLOMVERIF_EVIDENCE_DIR') or os.path.join(VERIF, 'evidence')
    os.makedirs(d, exist_ok=True)
    path = os.path.join(d, prop + '.json')
    tmp = path + '.tmp%d' % os.getpid()
    with open(tmp, 'w', encoding='utf8') as f:
        json.dump(ev, f, indent=1, default=repr, sort_keys=True)
    os.replace(tmp, path)
    return path
